"""C10 - restarting from a saved state continues the original trajectory (DESIGN 4, C10)."""
import ast

from ..core.loader import AnalysisError, own_nodes, norm, enclosing_stmt
from ..core import astq
from ..core.cfg import guards_of, ENTRY
from . import common as K
from . import flowalg
from . import c07

EXPLANATION = (
    "Thin, structural claim. R10a: Initialization.from_result (capture) and Initialization.apply (restore) range over every compartment of every population, use the same "
    "key shape, split on the same TimedCompartment test and pair per-row storage with per-row storage and scalar with scalar. R10b: at index 0 parameters and then links are "
    "evaluated before the stepping loop, so flows and parameters exist at the restart year. R10c: a saved state short-circuits the characteristic solve (= R07b). "
    "R10e: nothing between applying the saved state and the first step rewrites a restored compartment: the initial junction flush acts only on junctions that hold people (adding 0 to a timed compartment re-spreads it uniformly). R10d: the metadata written to the calibration spreadsheet are attributes the loader can restore. That the captured state is a complete Markov state, and spreadsheet "
    "precision, are not decided."
)


def run(ctx):
    repo = ctx.repo
    ctx.each(r10a, ctx, repo)
    ctx.each(r10b, ctx, repo)
    ctx.rule("R10c", "saved state wins: apply_initialization returns before the characteristic system is solved")
    ctx.each(_r07b_as, ctx, repo)
    ctx.each(r10d, ctx, repo)
    ctx.each(r10e, ctx, repo)
    ctx.each(flowalg.process_prologue, ctx, repo, "R10f")
    ctx.each(r10g, ctx, repo)
    from . import c03 as _c03

    ctx.each(_c03.r03d, ctx, repo)  # the first index of a run is evaluated twice: an evaluation that writes into the model's stored arrays makes a restart (where Y is the first index) differ from the original run (where Y is interior)


def _r07b_as(ctx, repo):
    # reuse the check, relabelled
    class Relabel:
        def __init__(self, ctx):
            self._c = ctx

        def __getattr__(self, k):
            return getattr(self._c, k)

        def rule(self, *a):
            pass

        def check(self, cond, rule, *a, **kw):
            return self._c.check(cond, "R10c", *a, **kw)

        def ok(self, rule, *a, **kw):
            return self._c.ok("R10c", *a, **kw)

        def fail(self, rule, *a, **kw):
            return self._c.fail("R10c", *a, **kw)

    c07.r07b(Relabel(ctx), repo)


def _norm_key(e, compvar, popvar):
    if not isinstance(e, ast.Tuple):
        return None
    out = []
    for x in e.elts:
        t = ast.unparse(x)
        if t.startswith(compvar + "."):
            out.append("comp." + t[len(compvar) + 1 :])
        elif t.startswith(popvar + "."):
            out.append("pop." + t[len(popvar) + 1 :])
        else:
            out.append(t)
    return tuple(out)


def _comp_loop(fi):
    loops = [l for l in own_nodes(fi.node) if isinstance(l, ast.For) and ast.unparse(l.iter).endswith(".comps") and isinstance(l.target, ast.Name)]
    if len(loops) != 1:
        raise AnalysisError("R10a: %s: expected exactly one loop over <pop>.comps, found %d" % (fi.fq, len(loops)))
    return loops[0]


def _branch_storage(loop, compvar, write):
    """{True/False (is timed): (storage attr, row index text)} for accesses to <compvar>.vals / ._vals under the TimedCompartment split."""
    out = {}
    split = [s for s in loop.body if isinstance(s, ast.If) and ast.unparse(s.test) == "isinstance(%s, TimedCompartment)" % compvar]
    if len(split) != 1 or len(loop.body) != 1:
        return None, "loop body is not exactly the `isinstance(comp, TimedCompartment)` split (a filter or early exit would drop compartments)"
    sp = split[0]
    for timed, blk in ((True, sp.body), (False, sp.orelse)):
        accs = set()
        for st in blk:
            for n in ast.walk(st):
                if isinstance(n, ast.Subscript) and isinstance(n.value, ast.Attribute) and n.value.attr in ("vals", "_vals") and astq.is_name(n.value.value, compvar):
                    is_store = isinstance(n.ctx, ast.Store)
                    if is_store == write:
                        row = K.row_index_of(n)
                        accs.add((n.value.attr, ast.unparse(row) if row is not None else None))
            for n in ast.walk(st):
                if isinstance(n, (ast.Continue, ast.Break, ast.Return)):
                    return None, "`%s` inside the compartment loop drops compartments" % type(n).__name__.lower()
        if len(accs) != 1:
            return None, "branch timed=%s accesses storage %s (expected one form)" % (timed, sorted(accs))
        out[timed] = next(iter(accs))
    return out, None


def r10a(ctx, repo):
    ctx.rule("R10a", "capture/apply symmetry of Initialization.from_result and Initialization.apply: all comps of all pops, same key shape, same TimedCompartment split, per-row <-> per-row and scalar <-> scalar")
    cap = repo.func("parameters", "Initialization.from_result")
    app = repo.func("parameters", "Initialization.apply")
    lc, la = _comp_loop(cap), _comp_loop(app)
    cv_c, cv_a = lc.target.id, la.target.id
    # population variable: the outer loop variable (capture) / the parameter (apply)
    outer = [l for l in own_nodes(cap.node) if isinstance(l, ast.For) and ast.unparse(l.iter).endswith(".pops") and any(x is lc for x in ast.walk(l))]
    ctx.check(len(outer) == 1 and not any(isinstance(s, (ast.If, ast.Continue)) for s in outer[0].body if s is not lc), "R10a", cap, outer[0] if outer else lc, "capture ranges over every population", "Initialization.from_result does not range over every population of the result's model")
    pv_c = outer[0].target.id if outer and isinstance(outer[0].target, ast.Name) else "pop"
    pv_a = ast.unparse(la.iter)[: -len(".comps")]
    keys_c = {_norm_key(t.slice, cv_c, pv_c) for s, t, k, v in astq.stores(cap.node) if k == "assign" and isinstance(t, ast.Subscript) and isinstance(t.slice, ast.Tuple)}
    keys_a = {_norm_key(n.slice, cv_a, pv_a) for n in own_nodes(app.node) if isinstance(n, ast.Subscript) and ast.unparse(n.value).endswith(".values") and isinstance(n.slice, ast.Tuple)}
    keys_a |= {_norm_key(c.left, cv_a, pv_a) for c in own_nodes(app.node) if isinstance(c, ast.Compare) and isinstance(c.left, ast.Tuple) and isinstance(c.ops[0], (ast.In, ast.NotIn))}
    ctx.require(keys_c and keys_a, "R10a: value keys not found in from_result / apply")
    ctx.check(len(keys_c) == 1 and keys_c == keys_a, "R10a", app, la, "capture and apply use the key shape %s" % sorted(keys_c), "saved sizes are stored under %s but looked up under %s: every compartment is restored as 0" % (sorted(keys_c), sorted(keys_a)))
    bc, why_c = _branch_storage(lc, cv_c, write=False)
    ba, why_a = _branch_storage(la, cv_a, write=True)
    if bc is None:
        ctx.fail("R10a", cap, lc, "Initialization.from_result: %s" % why_c)
    if ba is None:
        ctx.fail("R10a", app, la, "Initialization.apply: %s" % why_a)
    if bc and ba:
        for timed in (True, False):
            want = "_vals" if timed else "vals"
            ctx.check(bc[timed][0] == ba[timed][0] == want, "R10a", app, la, "%s compartments: %s captured and restored" % ("timed" if timed else "ordinary", want), "%s compartments are captured from `%s` but restored into `%s`: the elapsed-time structure is %s" % ("timed" if timed else "ordinary", bc[timed][0], ba[timed][0], "lost" if timed else "invented"))
            ctx.check(bc[timed][1] == ba[timed][1], "R10a", app, la, "same rows captured and restored (%s)" % bc[timed][1], "rows `%s` are captured but rows `%s` restored" % (bc[timed][1], ba[timed][1]))
    # every restore is the saved entry itself, unreduced, and depends only on the compartment kind and on the key being present
    vals_attr = "%s.values" % K.self_name(app)
    nrest = 0
    for st in ast.walk(la):
        tgt = st.targets[0] if isinstance(st, ast.Assign) and len(st.targets) == 1 else (st.target if isinstance(st, ast.AugAssign) else None)
        if tgt is None or not any(isinstance(x, ast.Subscript) and ast.unparse(x.value) == vals_attr for x in ast.walk(st.value)):
            continue
        nrest += 1
        plain = isinstance(st, ast.Assign) and isinstance(st.value, ast.Subscript) and ast.unparse(st.value.value) == vals_attr
        ctx.check(plain, "R10a", app, st, "restore assigns the saved entry as it is", "`%s` restores a function of the saved entry (`%s`), not the entry itself: a timed compartment restarted from it has lost who entered when, so the restarted trajectory departs from the original" % (norm(st)[:70], ast.unparse(st.value)[:50]))
        from ..core import boolx as B

        ksub = [x for x in ast.walk(st.value) if isinstance(x, ast.Subscript) and ast.unparse(x.value) == vals_attr]
        key = ast.unparse(ksub[0].slice)
        timed = "_vals" in ast.unparse(tgt)
        want = B.parse_cond("%sisinstance(%s, TimedCompartment) and (%s) in %s" % ("" if timed else "not ", cv_a, key, vals_attr))
        got = B.cond(guards_of(st, stop=la))
        ctx.check(B.equivalent(got, want), "R10a", app, st, "restored exactly when the key is present (per compartment kind)", "`%s` is executed under a condition that differs from `%s compartment and its key is in the saved values` (e.g. when %s): under the other outcome the saved state is replaced by something else (spread evenly, dropped, zeroed ...), so a restart does not continue the original trajectory" % (norm(st)[:60], "timed" if timed else "ordinary", B.counterexample(got, want)), stmt_text="restore-guard:" + norm(st)[:60])
    ctx.require(nrest >= 2, "R10a: fewer restores from self.values in Initialization.apply (%d) than confirmed (2)" % nrest)
    # apply writes index 0 only
    for s, t, k, v in astq.stores(app.node):
        if isinstance(t, ast.Subscript) and isinstance(t.value, ast.Attribute) and t.value.attr in ("vals", "_vals"):
            tix = K.time_index_of(t)
            ctx.check(isinstance(tix, ast.Constant) and tix.value == 0, "R10a", app, s, "restore writes the initial index", "Initialization.apply writes index `%s`" % ast.unparse(tix))
    # capture index comes from the requested year
    idx = [s for s in own_nodes(cap.node) if isinstance(s, ast.Assign) and "== year" in ast.unparse(s.value).replace("(", "").replace(")", "")]
    ctx.check(bool(idx), "R10a", cap, idx[0] if idx else cap.node, "capture index is the position of the requested year", "the capture index is not derived from the requested year")
    if idx:
        v = idx[0].value
        iname = ast.unparse(idx[0].targets[0])
        okx = isinstance(v, ast.Subscript) and isinstance(v.value, ast.Subscript) and ast.unparse(v.slice) == "0" and ast.unparse(v.value.slice) == "0" and isinstance(v.value.value, ast.Call) and ast.unparse(v.value.value.func) in ("np.nonzero", "np.where") and isinstance(v.value.value.args[0], ast.Compare) and isinstance(v.value.value.args[0].ops[0], ast.Eq) and sorted([ast.unparse(v.value.value.args[0].left), ast.unparse(v.value.value.args[0].comparators[0])]) == sorted(["year", "%s.model.t" % cap.params[1]])
        ctx.check(okx, "R10a", cap, idx[0], "index = first position where the model time equals the year", "`%s` is not the first position at which res.model.t equals the requested year: the state is captured at another time" % norm(idx[0])[:80], stmt_text="capture-index")
        reads = [n for n in ast.walk(lc) if isinstance(n, ast.Subscript) and isinstance(n.value, ast.Attribute) and n.value.attr in ("vals", "_vals") and isinstance(n.ctx, ast.Load)]
        okr = bool(reads) and all(ast.unparse(K.time_index_of(n)) == iname for n in reads)
        ctx.check(okr, "R10a", cap, lc, "every captured value is read at that index", "a compartment is captured at an index other than `%s`" % iname, stmt_text="capture-reads")
        last = [s for s in own_nodes(cap.node) if isinstance(s, ast.Assign) and astq.is_name(s.targets[0], "year")]
        okl = len(last) == 1 and ast.unparse(last[0].value) == "%s.model.t[-1]" % cap.params[1] and any(pol and ast.unparse(t) == "year is None" for t, pol in guards_of(last[0]))
        ctx.check(okl, "R10a", cap, last[0] if last else cap.node, "default year = the last simulated time", "without a year the state is not captured at the last simulated time point", stmt_text="capture-default")
    # compartments absent from the saved state start empty
    zs = [st for st in ast.walk(la) if isinstance(st, ast.Assign) and isinstance(st.targets[0], ast.Subscript) and ast.unparse(astq.strip_subs(st.targets[0])).startswith(cv_a + ".") and not any(isinstance(x, ast.Subscript) and ast.unparse(x.value) == vals_attr for x in ast.walk(st.value))]
    for st in zs:
        ctx.check(ast.unparse(st.value) in ("0", "0.0"), "R10a", app, st, "a compartment without a saved entry starts empty", "`%s` gives a compartment that has no saved entry a non-zero size" % norm(st), stmt_text="absent-zero:" + norm(st)[:40])


def r10b(ctx, repo):
    ctx.rule("R10b", "Model.process evaluates parameters and then links at index 0 before the stepping loop")
    fi = repo.func("model", "Model.process")
    me = K.self_name(fi)
    cfg = K.cfg(repo, fi)
    w = [x for x in own_nodes(fi.node) if isinstance(x, ast.While)]
    ctx.require(len(w) == 1, "R10b: while loop not found in Model.process")
    inside = {id(s) for s in ast.walk(w[0])}

    def calls(name):
        return [s for s in own_nodes(fi.node) if isinstance(s, ast.Expr) and isinstance(s.value, ast.Call) and ast.unparse(s.value.func) == "%s.%s" % (me, name) and id(s) not in inside and s.lineno < w[0].lineno]

    P, L = calls("update_pars"), calls("update_links")
    ids = lambda ss: [i for s in ss for i in cfg.ids(s)]
    head = cfg.ids(w[0])
    dead = cfg.asserted_infeasible_edges()  # `assert self._t_index == 0` makes the else-branch of `if self._t_index == 0` infeasible
    ctx.check(bool(L) and not cfg.path_exists([ENTRY], head, avoid_ids=ids(L), skip_edges=dead), "R10b", fi, L[0] if L else w[0], "links resolved at index 0 before the first step", "the stepping loop can start without update_links() at index 0: the first step after a restart applies no (NaN) flows")
    ctx.check(bool(P) and bool(L) and not cfg.path_exists([ENTRY], ids(L), avoid_ids=ids(P)), "R10b", fi, P[0] if P else w[0], "parameters evaluated at index 0 before the links", "update_links() at index 0 can run before update_pars(): function and program-driven parameters are NaN at the restart year")


def r10d(ctx, repo):
    ctx.rule("R10d", "Initialization.to_excel writes only metadata keys that are attributes of the class, each from the attribute of the same name; from_excel restores by key")
    te = repo.func("parameters", "Initialization.to_excel")
    init = repo.func("parameters", "Initialization.__init__")
    attrs = {t.attr for s, t, k, v in astq.stores(init.node) if isinstance(t, ast.Attribute) and astq.is_name(t.value, K.self_name(init))}
    md = [s for s in own_nodes(te.node) if isinstance(s, ast.Assign) and isinstance(s.value, ast.Dict) and s.value.keys]
    ctx.require(len(md) == 1, "R10d: metadata dict not found in Initialization.to_excel")
    me = K.self_name(te)
    for k, v in zip(md[0].value.keys, md[0].value.values):
        key = k.value if isinstance(k, ast.Constant) else None
        ctx.check(key in attrs and ast.unparse(v) == "%s.%s" % (me, key), "R10d", te, md[0], "metadata `%s` written from the attribute of the same name" % key, "metadata key `%s` is written from `%s`; from_excel restores it with setattr(self, key, value), so the attribute `%s` %s" % (key, ast.unparse(v), key, "does not exist on the class" if key not in attrs else "receives another attribute's value"))
    fe = repo.func("parameters", "Initialization.from_excel")
    ctx.check(any(isinstance(c, ast.Call) and astq.is_name(c.func, "setattr") for c in own_nodes(fe.node)), "R10d", fe, fe.node, "from_excel restores metadata by key", "Initialization.from_excel no longer restores the metadata by key")


def r10e(ctx, repo):
    from . import c04

    ctx.rule("R10e", "the initial junction flush does nothing for an empty junction (a restored state has empty junctions; `dest[0] += 0` would flatten the elapsed-time bins of a timed destination)")
    n = 0
    for ci in repo.subclasses(repo.cls("model", "JunctionCompartment")):
        if "initial_flush" in ci.methods:
            fi = ci.methods["initial_flush"]
            me = K.self_name(fi)
            guards = [s for s in own_nodes(fi.node) if isinstance(s, ast.If) and ("%s.vals[0]" % me) in ast.unparse(s.test) and any("dest[0]" in ast.unparse(x) for x in ast.walk(s))]
            ctx.require(len(guards) == 1, "R10e: %s: guard on self.vals[0] around the flush not found" % fi.fq)
            c04.flush_guard_region(ctx, fi, guards[0], me, "R10e")
            # every write to a destination is inside that guard
            for s_, t_, k_, v_ in astq.stores(fi.node):
                if "dest[0]" in ast.unparse(t_):
                    ctx.check(any(s_ is x for x in ast.walk(guards[0])), "R10e", fi, s_, "destination written only under the guard", "`%s` writes a destination outside the guard" % norm(s_)[:60])
            n += 1
    ctx.require(n >= 2, "R10e: fewer initial_flush implementations (%d) than confirmed (2)" % n)


def r10g(ctx, repo):
    ctx.rule("R10g", "the saved state survives the spreadsheet: Initialization.to_excel writes the frame whose index is the (compartment, population) key of every saved value with merge_cells=False - with pandas' default (merge_cells=True) vertically adjacent rows that share a compartment name are merged into one cell, from_excel reads the merged cells back as a missing key, and apply() restarts those compartments empty (whatever order the rows are written in)")
    fi = repo.func("parameters", "Initialization.to_excel")
    me = fi.params[0]
    # dicts filled under the keys of self.values
    keyed = set()
    for lp in own_nodes(fi.node):
        if isinstance(lp, ast.For) and ast.unparse(lp.iter).startswith("%s.values" % me):
            for st in ast.walk(lp):
                if isinstance(st, ast.Assign) and isinstance(st.targets[0], ast.Subscript) and isinstance(st.targets[0].value, ast.Name):
                    keyed.add(st.targets[0].value.id)
    ctx.require(keyed, "R10g: the dict filled from self.values was not found in Initialization.to_excel")
    frames = set()
    changed = True
    while changed:
        changed = False
        for st in own_nodes(fi.node):
            if isinstance(st, ast.Assign) and len(st.targets) == 1 and isinstance(st.targets[0], ast.Name) and st.targets[0].id not in frames:
                used = {x.id for x in ast.walk(st.value) if isinstance(x, ast.Name)}
                if used & (keyed | frames) and "DataFrame" in ast.unparse(st.value) or used & frames:
                    frames.add(st.targets[0].id)
                    changed = True
    calls = [c for c in ast.walk(fi.node) if isinstance(c, ast.Call) and isinstance(c.func, ast.Attribute) and c.func.attr == "to_excel" and ({x.id for x in ast.walk(c.func.value) if isinstance(x, ast.Name)} & (frames | keyed))]
    ctx.require(calls, "R10g: the to_excel call that writes the saved values was not found")
    for c in calls:
        mc = astq.kwarg(c, "merge_cells")
        ok = isinstance(mc, ast.Constant) and mc.value is False
        ctx.check(ok, "R10g", fi, enclosing_stmt(c), "the (compartment, population) index is written unmerged", "`%s` writes the (compartment, population) index with merged cells: rows that share a compartment name with the row above are read back with a missing key and their compartments restart empty" % norm(enclosing_stmt(c))[:90], stmt_text="to_excel-values")
