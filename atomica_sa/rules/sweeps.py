"""Thorough-tier whole-repository sweeps (DESIGN 7): generic rules applied outside their anchored sites, reported as notes; pyflakes cross-reference."""
import ast
import subprocess
import sys

from ..core.loader import own_nodes, enclosing_stmt, norm
from . import discretise


def discretisation_sweep(ctx, repo, rule):
    """Every int()/ceil/floor on a raw quotient by a step-like quantity anywhere in the repo (notes)."""
    n = 0
    for fi in repo.all_functions():
        for c in own_nodes(fi.node):
            if isinstance(c, ast.Call) and ast.unparse(c.func) in discretise.DISCRETISERS and c.args and discretise.is_raw_quotient(c.args[0]):
                n += 1
                ctx.note(rule, "sweep: %s:%d %s applies `%s` directly to `%s`" % (fi.module.relpath, c.lineno, fi.qualname, ast.unparse(c.func), ast.unparse(c.args[0])))
    ctx.extra.setdefault("sweeps", {})["discretisation_sites_outside_anchors"] = n


def pyflakes_crossref(ctx, repo):
    try:
        r = subprocess.run([sys.executable, "-m", "pyflakes", str(repo.root / "atomica")], capture_output=True, text=True, timeout=120)
        lines = [l for l in r.stdout.splitlines() if l.strip()]
        interesting = [l for l in lines if "assigned to but never used" in l or "undefined name" in l or "redefinition" in l]
        ctx.extra.setdefault("sweeps", {})["pyflakes"] = {"messages": len(lines), "unused_or_undefined": interesting[:40]}
    except Exception as e:  # cross-reference only; never a verdict
        ctx.extra.setdefault("sweeps", {})["pyflakes"] = {"error": repr(e)}


def effect_overview(ctx, repo, E):
    """Public entry points and which of their parameters they definitely mutate (evidence only)."""
    out = {}
    for fi in repo.all_functions():
        if fi.name.startswith("_") or fi.parent is not None:
            continue
        s = E.summary.get(fi.fq)
        if s and s.mut:
            ps = [p for p in s.mut if p != (fi.params[0] if fi.cls is not None and fi.params else None)]
            if ps:
                out[fi.fq] = ps
    ctx.extra.setdefault("sweeps", {})["public_functions_mutating_an_argument"] = out
