"""
Discretisation taint rule shared by C03 (time grid), C05 (keyring size) and C15 (idempotent restore).

A *raw float quotient* by a step-size-like quantity must not flow directly into int()/ceil/floor/trunc: k*dt/dt is
not k in floating point (0.3/0.1 = 2.9999999999999996, (5/12)/(1/12) = 5.000000000000001).  Accepted: the quotient
also goes through a rounding / closeness test in the same function (round, np.round, np.rint, np.isclose, math.isclose),
or it is adjusted before being discretised (anything other than the bare quotient reaches the call).
"""
import ast

from ..core.loader import AnalysisError, own_nodes, norm, enclosing_stmt
from ..core.dataflow import assigned_value
from . import common as K

DISCRETISERS = {"int", "math.ceil", "math.floor", "np.ceil", "np.floor", "np.trunc", "math.trunc", "np.fix"}
ROUNDERS = {"round", "np.round", "np.rint", "np.around", "np.isclose", "math.isclose", "np.round_"}
STEP_WORDS = ("dt", "sim_dt", "_sim_dt", "max_step", "step", "timestep")


def is_step_like(e):
    if isinstance(e, ast.Name):
        return e.id in STEP_WORDS
    if isinstance(e, ast.Attribute):
        return e.attr in STEP_WORDS
    return False


def is_raw_quotient(e):
    return isinstance(e, ast.BinOp) and isinstance(e.op, ast.Div) and is_step_like(e.right)


def contains_step_quotient(e):
    return any(is_raw_quotient(x) for x in ast.walk(e))


def _resolve(repo, fi, expr, stmt, depth=0):
    """Expressions that may be the value of ``expr`` at ``stmt`` (following plain local names through reaching definitions)."""
    if isinstance(expr, ast.Name) and depth < 4:
        rd = K.rdefs(repo, fi)
        out = []
        for d in rd.reaching_at_stmt(stmt, expr.id):
            ds = rd.def_stmt(d)
            if ds is None:
                continue
            v = assigned_value(ds, expr.id)
            if v is None:
                continue
            out += _resolve(repo, fi, v, ds, depth + 1)
        return out or [expr]
    return [expr]


def check_function(ctx, repo, fi, rule, what, follow_helpers=True, require_site=False, _depth=0, _seen=None):
    """Apply the rule to every discretising call in ``fi`` (and, one or two levels down, in repo helpers it calls).  Returns #sites."""
    _seen = _seen if _seen is not None else set()
    if fi.fq in _seen:
        return 0
    _seen.add(fi.fq)
    sites = 0
    rounded = set()
    for c in own_nodes(fi.node):
        if isinstance(c, ast.Call) and ast.unparse(c.func) in ROUNDERS:
            for a in c.args:
                rounded.add(ast.unparse(a))
    for c in own_nodes(fi.node):
        if not (isinstance(c, ast.Call) and ast.unparse(c.func) in DISCRETISERS and c.args):
            continue
        arg = c.args[0]
        stmt = enclosing_stmt(c)
        # int(np.ceil(x)): the inner call is the site
        if isinstance(arg, ast.Call) and ast.unparse(arg.func) in DISCRETISERS | ROUNDERS:
            continue
        vals = _resolve(repo, fi, arg, stmt)
        raw = [v for v in vals if is_raw_quotient(v)]
        touched = [v for v in vals if contains_step_quotient(v)]
        if not touched:
            continue
        sites += 1
        ctx.examine()
        if not raw:
            ctx.ok(rule, fi, "%s: quotient is adjusted before `%s`" % (what, ast.unparse(c.func)), stmt)
            continue
        snapped = ast.unparse(arg) in rounded or any(ast.unparse(v) in rounded for v in raw)
        if snapped:
            ctx.ok(rule, fi, "%s: quotient `%s` goes through a rounding/closeness test before `%s`" % (what, ast.unparse(raw[0]), ast.unparse(c.func)), stmt)
        else:
            ctx.fail(rule, fi, stmt, "%s: `%s` is applied directly to the raw float quotient `%s` (k*dt/dt is not k in floating point: 0.3/0.1 -> 2, (5/12)/(1/12) -> 6)" % (what, ast.unparse(c.func), ast.unparse(raw[0])))
    if follow_helpers and _depth < 2:
        for c in own_nodes(fi.node):
            if isinstance(c, ast.Call):
                callee = None
                if isinstance(c.func, ast.Name):
                    callee = repo.resolve_function_name(fi.module, c.func.id)
                elif isinstance(c.func, ast.Attribute) and isinstance(c.func.value, ast.Name) and c.func.value.id in (fi.params[:1] or []) and fi.cls is not None:
                    callee = repo.find_method(fi.cls, c.func.attr)
                if callee is not None and callee is not fi:
                    sites += check_function(ctx, repo, callee, rule, what, follow_helpers, False, _depth + 1, _seen)
    if require_site and sites == 0:
        raise AnalysisError("%s: no discretisation of a step quotient recognised in %s or its helpers (%s)" % (rule, fi.fq, what))
    return sites


def snap_tolerance_rule(ctx, repo, rule, sites):
    """The 'snap to the nearest integer' test in front of ceil() only absorbs rounding error: relative tolerance <= 1e-8."""
    import ast as _ast

    from ..core.loader import own_nodes as _own, norm as _norm

    ctx.rule(rule, "snapping a step count to the nearest integer absorbs floating-point error only: the test compares |n - round(n)| with a bound of at most 1e-8 (absolute, or relative to max(1, |n|)); np.isclose / math.isclose with default tolerances (1e-5 relative) would round a duration that is genuinely a little longer than k steps down to k")
    LIMIT = 1e-8
    n_sites = 0
    for m, q in sites:
        fi = repo.func(m, q)
        found = False
        for c in _own(fi.node):
            # abs(n - round(n)) < C [* max(1.0, abs(n))]
            if isinstance(c, _ast.Compare) and len(c.ops) == 1 and isinstance(c.ops[0], (_ast.Lt, _ast.LtE)) and isinstance(c.left, _ast.Call) and _ast.unparse(c.left.func) in ("abs", "np.abs", "math.fabs") and "round(" in _ast.unparse(c.left):
                found = True
                n_sites += 1
                consts = [x.value for x in _ast.walk(c.comparators[0]) if isinstance(x, _ast.Constant) and isinstance(x.value, float) and x.value < 1]
                ok = len(consts) == 1 and consts[0] <= LIMIT
                ctx.check(ok, rule, fi, c, "snap tolerance %s" % (consts[0] if consts else "?"), "`%s` snaps with a tolerance larger than 1e-8 (or one that cannot be read off): step counts that are genuinely non-integer are rounded to the nearest integer, so cohorts are released (or the time grid ends) one step early" % _ast.unparse(c)[:90])
            if isinstance(c, _ast.Call) and _ast.unparse(c.func) in ("np.isclose", "math.isclose", "np.allclose") and any("round(" in _ast.unparse(a) for a in c.args):
                found = True
                n_sites += 1
                kw = {k.arg: k.value for k in c.keywords}
                rt = kw.get("rtol", kw.get("rel_tol"))
                at = kw.get("atol", kw.get("abs_tol"))
                default_r = 1e-5 if _ast.unparse(c.func).startswith("np.") else 1e-9
                default_a = 1e-8 if _ast.unparse(c.func).startswith("np.") else 0.0
                r = rt.value if isinstance(rt, _ast.Constant) else (default_r if rt is None else None)
                a = at.value if isinstance(at, _ast.Constant) else (default_a if at is None else None)
                ok = r is not None and a is not None and r <= LIMIT and a <= LIMIT
                ctx.check(ok, rule, fi, c, "isclose tolerances rtol=%s atol=%s" % (r, a), "`%s` snaps with rtol=%s, atol=%s (limit 1e-8): a count that is k + 1e-5*k steps is rounded down to k, so a cohort leaves one step before its duration expires" % (_ast.unparse(c)[:70], r, a))
        if not found:
            ctx.fail(rule, fi, fi.node, "%s: the snap-to-integer test in front of the rounding was not found" % q, stmt_text="snap-missing:%s" % q)
    ctx.require(n_sites >= len(sites), "%s: fewer snap tests than sites" % rule)
