"""C13 - active programs set targeted parameters exactly, and reports match the run (DESIGN 4, C13)."""
import ast

from ..core.loader import AnalysisError, own_nodes, norm, enclosing_stmt
from ..core import astq
from ..core import dims as D
from ..core.cfg import guards_of
from . import common as K
from . import flowalg
from . import c06, c09, c11, c16

EXPLANATION = (
    "R13a: the integrator (Model._update_program_cache / update_pars) and the reporter (Result.get_coverage / get_alloc) obtain capacities, coverage, spending and the "
    "number eligible from the same callees with arguments drawn from the same sources. R13b (dimension algebra): the program outcome (per person reached, per step) is "
    "converted to the parameter's unit: x source popsize / dt for number parameters, / dt for rates and probabilities, unchanged otherwise. R13c: the program store is "
    "control-dependent on membership of (parameter, population) in the outcomes. R13d: limits are applied after the program stage (= R06a). R13e: reporting code "
    "interpolates program series with the same stepped method as the run. R13f: reporting code decides the program kind through is_one_off (= R11e). "
    "Exact parameter values are not decided."
)


def run(ctx):
    repo = ctx.repo
    T = K.types(repo)
    ctx.each(r13a, ctx, repo)
    # the value written into a parameter is the one the program set implies: the additive interaction relies on the cached order (largest effect relative to baseline first)
    from .c12 import r12a

    ctx.each(r12a, ctx, repo)
    from . import c20 as _c20

    ctx.each(_c20.r20e, ctx, repo)
    ctx.each(r13b, ctx, repo)
    ctx.each(r13c, ctx, repo)
    ctx.rule("R06a", "limits applied after the program stage: see C06 (shared rule)")
    ctx.each(c06.r06a, ctx, repo)
    ctx.each(r13e, ctx, repo, T)
    ctx.each(c11.r11e, ctx, repo, "R13f")
    ctx.each(c16.r16a, ctx, repo, T)
    ctx.each(c16.r16b, ctx, repo, T)  # programs target (parameter, population) pairs: the pair is looked up in that order
    ctx.each(c16.r16k, ctx, repo, T)
    ctx.each(r13h, ctx, repo)
    ctx.each(c11.r11d, ctx, repo)  # the coverage that sets the parameter is per time step: overwrites are converted before they are capped
    ctx.each(c11.r11a, ctx, repo)
    ctx.each(flowalg.process_prologue, ctx, repo, "R13i")
    ctx.each(r13j, ctx, repo)
    ctx.each(flowalg.accumulator_rule, ctx, repo, "R13g", [("model", "Model.update_pars"), ("model", "Parameter.source_popsize"), ("results", "Result.get_coverage")], 6, "the eligible-people counts")  # the outcome a program set implies is computed from a cache: it must follow every edit of the visible outcomes


def _norm_src(txt):
    """Normalise where an argument comes from: self.model.X and self.X denote the model's X in Result vs Model."""
    return txt.replace("self.model.", "self.").replace("self._program_cache['capacities']", "<capacities>")


def _call_args(repo, call, callee):
    params = [p for p in callee.params][1:]  # drop self
    out = {}
    for i, a in enumerate(call.args):
        if i < len(params):
            out[params[i]] = ast.unparse(a)
    for k in call.keywords:
        if k.arg:
            out[k.arg] = ast.unparse(k.value)
    return out


def r13a(ctx, repo):
    ctx.rule("R13a", "integrator and reporter call get_capacities / get_prop_covered / get_alloc with arguments from the same sources, and count eligible people over the same target lists")
    upc = repo.func("model", "Model._update_program_cache")
    gc = repo.func("results", "Result.get_coverage")
    gcap = repo.func("programs", "ProgramSet.get_capacities")
    sites = {}
    for fi in (upc, gc):
        calls = [c for c in own_nodes(fi.node) if isinstance(c, ast.Call) and isinstance(c.func, ast.Attribute) and c.func.attr == "get_capacities"]
        ctx.require(len(calls) == 1, "R13a: %s: expected one call of get_capacities, found %d" % (fi.fq, len(calls)))
        sites[fi.fq] = (fi, calls[0], {k: _norm_src(v) for k, v in _call_args(repo, calls[0], gcap).items()})
    (f1, c1, a1), (f2, c2, a2) = sites.values()
    want = {"tvec": "self.t", "dt": "self.dt", "instructions": "self.program_instructions"}
    for fi, c, a in ((f1, c1, a1), (f2, c2, a2)):
        ctx.check(a == want, "R13a", fi, enclosing_stmt(c), "capacities computed from (t, dt, program_instructions) of the model", "%s computes capacities from %s instead of the model's time vector, step and program instructions: %s" % (fi.qualname, a, "overwrites in the instructions are ignored" if "instructions" not in a else "the reported capacities are not the ones that drove the run"))
    # coverage: reporter -> get_prop_coverage -> get_prop_covered ; integrator -> get_prop_covered
    gpc = repo.func("programs", "ProgramSet.get_prop_coverage")
    deleg = [c for c in own_nodes(gpc.node) if isinstance(c, ast.Call) and isinstance(c.func, ast.Attribute) and c.func.attr == "get_prop_covered"]
    ctx.check(len(deleg) == 1 and [ast.unparse(a) for a in deleg[0].args][1:] == ["capacities[prog.name]", "num_eligible[prog.name]"], "R13a", gpc, enclosing_stmt(deleg[0]) if deleg else gpc.node, "get_prop_coverage delegates to get_prop_covered(t, capacity, eligible)", "get_prop_coverage no longer delegates to Program.get_prop_covered with this program's capacity and number eligible")
    up = repo.func("model", "Model.update_pars")
    integ = [c for c in own_nodes(up.node) if isinstance(c, ast.Call) and isinstance(c.func, ast.Attribute) and c.func.attr == "get_prop_covered"]
    ctx.require(len(integ) == 1, "R13a: update_pars does not call get_prop_covered exactly once")
    ia = [ast.unparse(a) for a in integ[0].args]
    me = K.self_name(up)
    ok = len(ia) == 3 and ia[0] == "%s.t[ti]" % me and ia[1].startswith("%s._program_cache['capacities'][" % me) and ia[1].endswith("[ti]")
    ctx.check(ok, "R13a", up, enclosing_stmt(integ[0]), "integrator coverage from the cached capacities at the current step", "update_pars computes coverage from `%s`, not from this step's cached capacity" % ", ".join(ia))
    # every coverage the integrator uses comes from get_prop_covered or from the precomputed overwrite - no private special case
    cov_target = None
    st_ = enclosing_stmt(integ[0])
    if isinstance(st_, ast.Assign) and isinstance(st_.targets[0], ast.Subscript) and isinstance(st_.targets[0].value, ast.Name):
        cov_target = st_.targets[0].value.id
    ctx.require(cov_target is not None, "R13a: the coverage dict filled in update_pars was not recognised")
    for s_, t_, k_, v_ in astq.stores(up.node):
        if isinstance(t_, ast.Subscript) and astq.is_name(t_.value, cov_target) and k_ in ("assign", "aug"):
            vt = ast.unparse(v_)
            # the stored value is the call (or the cached overwrite) itself: not one arm of a conditional expression, not a product with something else
            v0 = v_
            while isinstance(v0, ast.Subscript):
                v0 = v0.value
            ok = (isinstance(v0, ast.Call) and isinstance(v0.func, ast.Attribute) and v0.func.attr == "get_prop_covered") or (isinstance(v0, ast.Attribute) and v0.attr == "_program_cache" and "_program_cache['prop_coverage']" in vt)
            ctx.check(ok, "R13a", up, s_, "coverage comes from get_prop_covered / the precomputed overwrite", "update_pars sets a program's coverage to `%s` on a path of its own: the run then uses a coverage that Result.get_coverage (which always goes through get_prop_covered) does not report, e.g. when nobody is eligible" % vt[:70])
    rep = [c for c in own_nodes(gc.node) if isinstance(c, ast.Call) and isinstance(c.func, ast.Attribute) and c.func.attr == "get_prop_coverage"]
    ctx.require(len(rep) == 1, "R13a: Result.get_coverage does not call get_prop_coverage exactly once")
    ra = {k: _norm_src(v) for k, v in _call_args(repo, rep[0], gpc).items()}
    capname = None
    for s in own_nodes(gc.node):
        if isinstance(s, ast.Assign) and any(c is c2 for c in ast.walk(s.value)) and isinstance(s.targets[0], ast.Name):
            capname = s.targets[0].id
    ctx.check(ra.get("capacities") == capname and ra.get("instructions") == "self.program_instructions" and ra.get("dt") == "self.dt" and ra.get("tvec") == "self.t", "R13a", gc, enclosing_stmt(rep[0]), "reported coverage from the same capacities and instructions", "Result.get_coverage computes coverage from %s" % ra)
    upc_cov = [c for c in own_nodes(upc.node) if isinstance(c, ast.Call) and isinstance(c.func, ast.Attribute) and c.func.attr == "get_prop_coverage"]
    if upc_cov:
        ua = {k: _norm_src(v) for k, v in _call_args(repo, upc_cov[0], gpc).items()}
        ctx.check(ua.get("capacities") == "<capacities>" and ua.get("instructions") == "self.program_instructions", "R13a", upc, enclosing_stmt(upc_cov[0]), "precomputed coverage overwrites use the same capacities and instructions", "the precomputed coverage uses %s" % ua)
    # eligible: same target lists
    def target_attrs(fi):
        out = set()
        for l in own_nodes(fi.node):
            if isinstance(l, ast.For) and isinstance(l.iter, ast.Attribute) and l.iter.attr.startswith("target_"):
                out.add(l.iter.attr)
        return out

    ti, tr = target_attrs(upc), target_attrs(gc)
    ctx.check(ti == tr == {"target_pops", "target_comps"}, "R13a", gc, gc.node, "eligible people counted over target_pops x target_comps in both", "the integrator counts eligible people over %s but the reporter over %s" % (sorted(ti), sorted(tr)))
    ctx.note("R13a", "reporter uses comp.outflow for junction targets where the integrator reads the (always empty) junction stock: known, documented difference in what 'eligible' means for a junction")
    # spending
    ga = repo.func("results", "Result.get_alloc")
    rcall = [c for c in own_nodes(ga.node) if isinstance(c, ast.Call) and isinstance(c.func, ast.Attribute) and c.func.attr == "get_alloc"]
    icall = [c for c in own_nodes(gcap.node) if isinstance(c, ast.Call) and isinstance(c.func, ast.Attribute) and c.func.attr == "get_alloc"]
    ctx.check(len(rcall) == 1 and "program_instructions" in ast.unparse(rcall[0]), "R13a", ga, enclosing_stmt(rcall[0]) if rcall else ga.node, "reported spending = ProgramSet.get_alloc with the model's instructions", "Result.get_alloc does not report ProgramSet.get_alloc(year, the model's instructions)")
    ctx.check(len(icall) == 1 and "instructions" in ast.unparse(icall[0]), "R13a", gcap, enclosing_stmt(icall[0]) if icall else gcap.node, "capacities use ProgramSet.get_alloc with the same instructions", "get_capacities does not obtain spending through get_alloc(tvec, instructions)")


UNIT_WANT = {
    "QUANTITY_TYPE_NUMBER": D.N / D.Y,
    "QUANTITY_TYPE_RATE": D.ONE / D.Y,
    "QUANTITY_TYPE_PROBABILITY": D.ONE / D.Y,
    "OTHER": D.ONE,
}


def r13b(ctx, repo):
    ctx.rule("R13b", "dimension of the program-driven value per unit kind: number -> outcome x source popsize / dt (people/year), rate|probability -> outcome / dt (1/year), others unchanged (the code uses years where the parameter's own period would be exact; named exception)")
    from .c03 import unit_consts_in_test

    fi = repo.func("model", "Model.update_pars")
    me = K.self_name(fi)
    loop = c06._dyn_loop(fi)
    A, B, Cc, Dd = c06.stage_sets(fi, loop)
    ctx.require(B, "R13b: program stores not found")
    # the innermost `if (par.name, par.pop.name) in prog_vals:` block
    blk = None
    for s in ast.walk(loop):
        if isinstance(s, ast.If) and isinstance(s.test, ast.Compare) and isinstance(s.test.ops[0], ast.In) and "prog_vals" in ast.unparse(s.test.comparators[0]):
            blk = s
    ctx.require(blk is not None, "R13b: membership block `(par.name, par.pop.name) in prog_vals` not found")
    pv = None
    for n in ast.walk(blk.test):
        if isinstance(n, ast.Attribute) and n.attr == "name" and isinstance(n.value, ast.Name):
            pv = n.value.id
    slot = None
    for s in B:
        t = s.targets[0] if isinstance(s, ast.Assign) else s.target
        if isinstance(t, ast.Subscript) and astq.is_name(t.value, pv):
            slot = ast.unparse(t)
    ctx.require(slot is not None, "R13b: value slot par[ti] not found")
    n = 0
    for kind, want in UNIT_WANT.items():
        def refine(test, env_, kind=kind):
            consts = unit_consts_in_test(test, pv)
            if consts:
                hit = kind in consts
                return (dict(env_), None) if hit else (None, dict(env_))
            if ast.unparse(test) == "%s.derivative" % pv:
                return None, dict(env_)
            return dict(env_), dict(env_)

        def hook(call, ev):
            if ast.unparse(call.func) == "%s.source_popsize" % pv:
                return D.N
            return None

        errs = []
        w = D.DimWalker(refine=refine, call_hook=hook, on_error=lambda s, ex: errs.append((s, ex)))
        env = {"prog_vals": D.ONE, "%s.dt" % me: D.Y}
        out = w.run(blk.body, env)
        for s, ex in errs:
            ctx.fail("R13b", fi, s, "dimensionally inconsistent arithmetic in the program conversion: %s" % ex.msg)
        d = out.get(slot)
        n += 1
        label = kind.replace("QUANTITY_TYPE_", "").lower()
        if d is None:
            raise AnalysisError("R13b: could not compute the dimension of %s for %s parameters" % (slot, label))
        ctx.check(isinstance(d, D.Poly) or d == want, "R13b", fi, blk, "%s parameters: program value has dimension %r" % (label, want), "for %s parameters the program-driven value has dimension %r, expected %r: the per-step outcome is not converted to the parameter's annual unit correctly" % (label, d, want))
    ctx.require(n == 4, "R13b: expected 4 unit scenarios")


def r13c(ctx, repo):
    ctx.rule("R13c", "only targeted (parameter, population) pairs are written: every program store is control-dependent on membership in the outcomes dict")
    fi = repo.func("model", "Model.update_pars")
    loop = c06._dyn_loop(fi)
    A, B, Cc, Dd = c06.stage_sets(fi, loop)
    ctx.require(len(B) >= 3, "R13c: fewer program stores than confirmed")
    for s in B:
        gs = [t for t, pol in guards_of(s) if pol]
        ok = False
        for t in gs:
            if isinstance(t, ast.Compare) and isinstance(t.ops[0], ast.In) and isinstance(t.left, ast.Tuple) and "prog_vals" in ast.unparse(t.comparators[0]):
                key = [ast.unparse(e) for e in t.left.elts]
                tgt = s.targets[0] if isinstance(s, ast.Assign) else s.target
                owner = ast.unparse(astq.strip_subs(tgt)).split(".")[0]
                ok = key == ["%s.name" % owner, "%s.pop.name" % owner]
        ctx.check(ok, "R13c", fi, s, "store guarded by (par.name, par.pop.name) in prog_vals", "program store `%s` is not conditional on this parameter and population being targeted: untargeted parameters are overwritten" % norm(s)[:80])
    # the value read is the one for this (par, pop)
    for s in B:
        if isinstance(s, ast.Assign) and "prog_vals[" in ast.unparse(s.value):
            tgt = s.targets[0]
            owner = ast.unparse(astq.strip_subs(tgt)).split(".")[0]
            ctx.check("prog_vals[%s.name, %s.pop.name]" % (owner, owner) in ast.unparse(s.value), "R13c", fi, s, "value read under the same key", "the program value is read under a different key than the one tested: `%s`" % ast.unparse(s.value))


def r13e(ctx, repo, T):
    ctx.rule("R13e", "reporting paths interpolate program series with the stepped method used by the run (other non-reporting sites are listed as notes)")
    n = c09.program_interpolations(ctx, repo, T, ["results"], "R13e", fail=True)
    c09.program_interpolations(ctx, repo, T, ["reconciliation", "optimization", "scenarios", "project", "calibration", "cascade"], "R13e", fail=False)
    ctx.require(n >= 1, "R13e: no program-series interpolation found in results.py (expected get_equivalent_alloc)")


def r13h(ctx, repo):
    from ..core import boolx as B
    from ..core import algebra as A

    ctx.rule("R13h", "Result.get_coverage reports what was asked for: 'capacity' -> the capacities the run used, 'fraction' / 'annual_fraction' -> the proportion covered, 'eligible' -> the eligible count, 'number' -> eligible x proportion per program; per-year quantities (capacity, number, annual_fraction) are divided by dt for one-off programs only; requested years are read by interpolation of the same arrays")
    fi = repo.func("results", "Result.get_coverage")
    me = K.self_name(fi)
    q = fi.params[1]
    outs = [s for s in own_nodes(fi.node) if isinstance(s, ast.Assign) and astq.is_name(s.targets[0], "output")]
    got = {}
    for s in outs:
        g = B.cond(guards_of(s))
        v = ast.unparse(s.value)
        for kind, want, val_ok in (
            ("capacity", "%s == 'capacity'" % q, v == "capacities"),
            ("fraction", "not (%s == 'capacity') and %s in {'fraction', 'annual_fraction'}" % (q, q), v == "prop_coverage"),
            ("eligible", "not (%s == 'capacity') and not (%s in {'fraction', 'annual_fraction'}) and %s == 'eligible'" % (q, q, q), v == "num_eligible"),
            ("number", "not (%s == 'capacity') and not (%s in {'fraction', 'annual_fraction'}) and not (%s == 'eligible') and %s == 'number'" % (q, q, q, q), isinstance(s.value, ast.DictComp) and A.same(s.value.value, A.parse("num_eligible[x] * prop_coverage[x]".replace("x", ast.unparse(s.value.key))))),
        ):
            if val_ok:
                # the progset-is-None early return precedes everything; compare under that assumption
                assume = B.parse_cond("not (%s.model.progset is None)" % me)
                got[kind] = B.equivalent(g, B.parse_cond("not (%s.model.progset is None) and (%s)" % (me, want)), assume=assume)
    ctx.check(got == {"capacity": True, "fraction": True, "eligible": True, "number": True}, "R13h", fi, outs[0] if outs else fi.node, "each quantity name selects its own table", "Result.get_coverage does not return capacities / prop_coverage / num_eligible / eligible x proportion under exactly the quantity names 'capacity' / 'fraction' or 'annual_fraction' / 'eligible' / 'number' (%s): the reported coverage is not the one that produced the run's parameter values" % got, stmt_text="dispatch")
    div = [s for s in own_nodes(fi.node) if isinstance(s, ast.AugAssign) and isinstance(s.op, ast.Div) and ast.unparse(astq.strip_subs(s.target)) == "output"]
    ok = len(div) == 1 and ast.unparse(div[0].value) == "%s.dt" % me
    if ok:
        lp = K.enclosing_loops(div[0])
        ok = bool(lp) and B.equivalent(B.cond(guards_of(div[0], stop=lp[0])), B.parse_cond("%s.model.progset.programs[%s].is_one_off" % (me, ast.unparse(lp[0].target)))) and B.equivalent(B.cond([g_ for g_ in guards_of(lp[0]) if "progset is None" not in ast.unparse(g_[0])]), B.parse_cond("%s in {'capacity', 'number', 'annual_fraction'}" % q))
    ctx.check(ok, "R13h", fi, div[0] if div else fi.node, "per-year quantities of one-off programs are divided by dt", "the division by dt is not applied exactly to one-off programs for the quantities capacity / number / annual_fraction", stmt_text="annualise")
    args = {"get_capacities": None, "get_prop_coverage": None}
    for c in own_nodes(fi.node):
        if isinstance(c, ast.Call) and isinstance(c.func, ast.Attribute) and c.func.attr in args and ast.unparse(c.func.value) == "%s.model.progset" % me:
            callee = repo.func("programs", "ProgramSet.%s" % c.func.attr)
            got_args = {}
            for pos, pname in enumerate(callee.params[1:]):
                v = astq.kwarg(c, pname, pos=pos)
                if v is not None:
                    got_args[pname] = ast.unparse(v)
            args[c.func.attr] = got_args
    ok = args["get_capacities"] == {"tvec": "%s.t" % me, "dt": "%s.dt" % me, "instructions": "%s.model.program_instructions" % me} and args["get_prop_coverage"] == {"tvec": "%s.t" % me, "dt": "%s.dt" % me, "capacities": "capacities", "num_eligible": "num_eligible", "instructions": "%s.model.program_instructions" % me}
    ctx.check(ok, "R13h", fi, fi.node, "reported from the run's own time vector, step, instructions, capacities and eligible counts", "Result.get_coverage does not call get_capacities / get_prop_coverage with the result's t, dt, the model's instructions and the capacities / eligible counts computed here: %s" % args, stmt_text="arguments")


def ancestors(n):
    p = getattr(n, "_parent", None)
    while p is not None:
        yield p
        p = getattr(p, "_parent", None)


def r13j(ctx, repo):
    ctx.rule("R13j", "the number of people a number-type program parameter is converted with is the current one: Parameter.source_popsize memoises its result per time index, and the first index is evaluated twice with the initial junction flush in between (update_pars, flush_junctions, update_pars) - so Model.process clears that memo for every parameter of every population after flush_junctions() and before the second update_pars(); otherwise, in a model that is initialised through a junction, every such parameter is converted with the pre-flush (empty) source compartments at the first time point")
    sp = repo.func("model", "Parameter.source_popsize")
    me = sp.params[0]
    cached = [r for r in own_nodes(sp.node) if isinstance(r, ast.Return) and isinstance(r.value, ast.Attribute) and "cache" in r.value.attr]
    if not cached:
        ctx.ok("R13j", sp, "source_popsize is not memoised")
        return
    key = None
    for t, pol in guards_of(cached[0], stop=sp.node):
        for x in ast.walk(t):
            if isinstance(x, ast.Attribute) and isinstance(x.value, ast.Name) and x.value.id == me and "cache" in x.attr:
                key = x.attr
    ctx.require(key is not None, "R13j: the memo key of Parameter.source_popsize was not recognised")
    pr = repo.func("model", "Model.process")
    cfg = K.cfg(repo, pr)
    fl = [enclosing_stmt(c) for c in own_nodes(pr.node) if isinstance(c, ast.Call) and isinstance(c.func, ast.Attribute) and c.func.attr == "flush_junctions"]
    ups = [enclosing_stmt(c) for c in own_nodes(pr.node) if isinstance(c, ast.Call) and isinstance(c.func, ast.Attribute) and c.func.attr == "update_pars"]
    ctx.require(len(fl) == 1 and ups, "R13j: flush_junctions / update_pars calls not found in Model.process")
    after = [u for u in ups if u.lineno > fl[0].lineno and any(u is b for b in fl[0]._parent.body)]
    ctx.require(after, "R13j: no update_pars() after flush_junctions() in the same block")
    clr = [s_ for s_ in ast.walk(pr.node) if isinstance(s_, ast.Assign) and isinstance(s_.targets[0], ast.Attribute) and s_.targets[0].attr == key and isinstance(s_.value, ast.Constant) and s_.value.value is None]
    ok = len(clr) >= 1
    if ok:
        c = clr[0]
        loops = [a for a in ancestors(c) if isinstance(a, ast.For)]
        its = sorted(ast.unparse(l.iter) for l in loops)
        top = loops[-1] if loops else c
        ok = len(loops) == 2 and its[0].endswith(".pars") and its[1].endswith(".pops") and fl[0].lineno < top.lineno < after[0].lineno and any(top is b for b in fl[0]._parent.body) and not any(isinstance(a, ast.If) for a in ancestors(c) if a is not fl[0]._parent and getattr(a, "lineno", 0) > fl[0].lineno)
    ctx.check(ok, "R13j", pr, clr[0] if clr else fl[0], "the source-popsize memo is cleared between the initial flush and the second parameter update", "Model.process does not clear `%s` for every parameter of every population between flush_junctions() and the following update_pars(): at the first time point number-type program parameters are converted with the source compartment sizes from before the flush" % key, stmt_text="popsize-memo-cleared")
