"""
Monotonicity lattice (DESIGN C11, R11f): abstract interpretation of arithmetic over
    mono in {CONST, INC (non-decreasing), DEC (non-increasing), UNK}   with respect to one chosen variable
    sign in {POS (>0), NONNEG (>=0), NEG (<0), NONPOS (<=0), ANY}
under stated sign assumptions for the free names.  Transfer functions for + - * / unary minus, exp, np.minimum/np.maximum,
the guarded-division idioms of this repository, and sequential assignment with joins at if/else.
"""
import ast

CONST, INC, DEC, UNK = "const", "inc", "dec", "unk"
POS, NONNEG, NEG, NONPOS, ANYS = "pos", "nonneg", "neg", "nonpos", "any"


class MonoUnknown(Exception):
    pass


def flip(m):
    return {INC: DEC, DEC: INC}.get(m, m)


def neg_sign(s):
    return {POS: NEG, NEG: POS, NONNEG: NONPOS, NONPOS: NONNEG}.get(s, ANYS)


def join_m(a, b):
    if a == b:
        return a
    if a == CONST:
        return b
    if b == CONST:
        return a
    return UNK


def join_s(a, b):
    if a == b:
        return a
    nn, npos = {POS, NONNEG}, {NEG, NONPOS}
    if a in nn and b in nn:
        return NONNEG
    if a in npos and b in npos:
        return NONPOS
    return ANYS


def is_nonneg(s):
    return s in (POS, NONNEG)


def is_nonpos(s):
    return s in (NEG, NONPOS)


def mul(a, b):
    (ma, sa), (mb, sb) = a, b
    # sign
    if is_nonneg(sa) and is_nonneg(sb):
        s = POS if (sa == POS and sb == POS) else NONNEG
    elif is_nonpos(sa) and is_nonpos(sb):
        s = POS if (sa == NEG and sb == NEG) else NONNEG
    elif (is_nonneg(sa) and is_nonpos(sb)) or (is_nonpos(sa) and is_nonneg(sb)):
        s = NEG if ({sa, sb} == {POS, NEG}) else NONPOS
    else:
        s = ANYS
    # monotonicity of a*b: d(ab) = a db + b da
    def term(m_other_sign, m):
        if m == CONST:
            return CONST
        if m == UNK:
            return UNK
        if is_nonneg(m_other_sign):
            return m
        if is_nonpos(m_other_sign):
            return flip(m)
        return UNK

    t1 = term(sa, mb)
    t2 = term(sb, ma)
    m = join_m(t1, t2) if UNK not in (t1, t2) else UNK
    if t1 != CONST and t2 != CONST and t1 != t2:
        m = UNK
    return (m, s)


def recip(a):
    m, s = a
    if s == POS:
        return (flip(m), POS)
    if s == NEG:
        return (flip(m), NEG)
    if m == CONST:
        return (CONST, s if s in (POS, NEG) else ANYS)
    return (UNK, ANYS)


def add(a, b):
    (ma, sa), (mb, sb) = a, b
    if ma == UNK or mb == UNK:
        m = UNK
    elif ma == CONST:
        m = mb
    elif mb == CONST:
        m = ma
    elif ma == mb:
        m = ma
    else:
        m = UNK
    if is_nonneg(sa) and is_nonneg(sb):
        s = POS if POS in (sa, sb) else NONNEG
    elif is_nonpos(sa) and is_nonpos(sb):
        s = NEG if NEG in (sa, sb) else NONPOS
    else:
        s = ANYS
    return (m, s)


def neg(a):
    return (flip(a[0]), neg_sign(a[1]))


class MonoEval:
    def __init__(self, env):
        """env: name/text -> (mono, sign)"""
        self.env = dict(env)

    def ev(self, e):
        txt = ast.unparse(e)
        if txt in self.env:
            return self.env[txt]
        if isinstance(e, ast.Constant) and isinstance(e.value, (int, float)) and not isinstance(e.value, bool):
            v = e.value
            return (CONST, POS if v > 0 else NEG if v < 0 else NONNEG)
        if isinstance(e, ast.Attribute) and txt in ("np.inf", "math.inf"):
            return (CONST, POS)
        if isinstance(e, ast.Subscript):
            return self.ev(e.value)
        if isinstance(e, ast.UnaryOp) and isinstance(e.op, ast.USub):
            return neg(self.ev(e.operand))
        if isinstance(e, ast.UnaryOp) and isinstance(e.op, ast.UAdd):
            return self.ev(e.operand)
        if isinstance(e, ast.BinOp):
            l, r = self.ev(e.left), self.ev(e.right)
            if isinstance(e.op, ast.Add):
                return add(l, r)
            if isinstance(e.op, ast.Sub):
                return add(l, neg(r))
            if isinstance(e.op, ast.Mult):
                return mul(l, r)
            if isinstance(e.op, ast.Div):
                return mul(l, recip(r))
            raise MonoUnknown("operator %s in `%s`" % (type(e.op).__name__, txt))
        if isinstance(e, ast.Call):
            fn = ast.unparse(e.func)
            if fn in ("sc.promotetoarray", "np.array", "np.asarray", "float", "np.copy", "sc.dcp") and e.args:
                return self.ev(e.args[0])
            if fn in ("exp", "np.exp", "math.exp") and e.args:
                m, s = self.ev(e.args[0])
                return (m, POS)
            if fn in ("np.minimum", "np.maximum", "min", "max") and len(e.args) == 2:
                a, b = self.ev(e.args[0]), self.ev(e.args[1])
                ms = {a[0], b[0]}
                m = UNK if UNK in ms or (INC in ms and DEC in ms) else (INC if INC in ms else DEC if DEC in ms else CONST)
                if fn in ("np.minimum", "min"):
                    s = a[1] if a[1] == b[1] else (NONNEG if is_nonneg(a[1]) and is_nonneg(b[1]) else ANYS)
                else:
                    s = POS if POS in (a[1], b[1]) else (NONNEG if is_nonneg(a[1]) or is_nonneg(b[1]) else ANYS)
                return (m, s)
            if fn == "np.divide" and len(e.args) == 2:
                a, b = self.ev(e.args[0]), self.ev(e.args[1])
                q = mul(a, recip(b)) if b[1] in (POS, NEG) else mul(a, recip((b[0], POS))) if is_nonneg(b[1]) else (UNK, ANYS)
                where = next((k.value for k in e.keywords if k.arg == "where"), None)
                out = next((k.value for k in e.keywords if k.arg == "out"), None)
                if where is None:
                    return q
                wt = ast.unparse(where)
                at, bt = ast.unparse(e.args[0]), ast.unparse(e.args[1])
                outt = ast.unparse(out) if out is not None else ""
                # idiom 1: np.divide(a, b, out=ones, where=b > a)  ==  min(a/b, 1) for a, b >= 0
                if wt == "%s > %s" % (bt, at) and "ones" in outt and is_nonneg(a[1]) and is_nonneg(b[1]):
                    m = q[0]
                    return (m, NONNEG)
                # idiom 2: np.divide(a, b, out=full(inf), where=b != 0)  ==  a/b with +inf where b == 0 (a >= 0): monotone like a/b
                if wt in ("%s != 0" % bt, "%s > 0" % bt) and ("inf" in outt) and is_nonneg(a[1]) and is_nonneg(b[1]):
                    return (q[0], NONNEG)
                raise MonoUnknown("np.divide with an unrecognised where=/out= form: `%s`" % txt)
            raise MonoUnknown("call `%s`" % fn)
        raise MonoUnknown("expression `%s`" % txt)


class MonoWalker:
    """Sequential abstract interpretation of a function body; joins at if/else; returns the joined value of all returns."""

    def __init__(self, decide=None):
        self.decide = decide or (lambda test: None)
        self.returns = []

    def run(self, stmts, env):
        for s in stmts:
            env = self.stmt(s, env)
            if env is None:
                return None
        return env

    def stmt(self, s, env):
        if isinstance(s, ast.Assign) and len(s.targets) == 1 and isinstance(s.targets[0], ast.Name):
            try:
                env = dict(env)
                env[s.targets[0].id] = MonoEval(env).ev(s.value)
            except MonoUnknown as e:
                env.pop(s.targets[0].id, None)
                env["__unknown__" + s.targets[0].id] = str(e)
            return env
        if isinstance(s, ast.AugAssign) and isinstance(s.target, ast.Name):
            fake = ast.BinOp(left=ast.Name(id=s.target.id, ctx=ast.Load()), op=s.op, right=s.value)
            try:
                env = dict(env)
                env[s.target.id] = MonoEval(env).ev(fake)
            except MonoUnknown as e:
                env.pop(s.target.id, None)
                env["__unknown__" + s.target.id] = str(e)
            return env
        if isinstance(s, ast.If):
            d = self.decide(s.test)
            if d is True:
                return self.run(s.body, env)
            if d is False:
                return self.run(s.orelse, env)
            a = self.run(s.body, dict(env))
            b = self.run(s.orelse, dict(env))
            if a is None:
                return b
            if b is None:
                return a
            out = {}
            for k in set(a) | set(b):
                if k.startswith("__unknown__"):
                    out[k] = a.get(k) or b.get(k)
                elif k in a and k in b:
                    out[k] = (join_m(a[k][0], b[k][0]), join_s(a[k][1], b[k][1]))
            return out
        if isinstance(s, ast.Return):
            if s.value is not None:
                try:
                    self.returns.append((s, MonoEval(env).ev(s.value)))
                except MonoUnknown as e:
                    why = str(e)
                    if isinstance(s.value, ast.Name) and ("__unknown__" + s.value.id) in env:
                        why = env["__unknown__" + s.value.id]
                    self.returns.append((s, MonoUnknown(why)))
            return None
        return env
