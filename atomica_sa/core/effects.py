"""
Effect (mutation) summaries (DESIGN 3.5): for every function, the parameters it *definitely* mutates.

A mutation is a store / augmented store / del through an attribute or subscript, a call of a known in-place mutator, or a call
of a repo function whose own summary mutates the corresponding parameter - where the target is an access path rooted at a
parameter, or at a local that is bound (on every one of its bindings) to such a path without an intervening call.  Call results
are fresh unless the callee's summary says it returns an alias of one of its parameters.  sc.dcp / copy.deepcopy / .copy() /
np.array / .tolist() cut the chain.  Must-mutate through definite aliases: it under-approximates, so it cannot raise an alarm
from aliasing it merely suspects.
"""
import ast

from .loader import own_nodes, enclosing_stmt, norm
from .types import is_inst
from .astq import MUTATORS

FRESH = ("FRESH", None)
ITER_PASSTHROUGH = {"enumerate", "zip", "list", "tuple", "reversed", "sorted", "iter"}
ELEM_METHODS = {"values", "items", "get", "keys"}
# in-place methods of repo-independent containers / arrays; repo classes are handled through their own summaries
BUILTIN_MUT = MUTATORS | {"sort", "fill", "itemset", "resize", "byteswap", "partition", "put", "setfield", "setflags", "drop_duplicates_inplace"}


def _is_abstract(fi):
    for st in fi.node.body:
        if isinstance(st, ast.Expr) and isinstance(st.value, ast.Constant):
            continue
        if isinstance(st, ast.Pass):
            continue
        if isinstance(st, ast.Return) and st.value is None:
            continue
        if isinstance(st, ast.Raise) and st.exc is not None and "NotImplemented" in ast.unparse(st.exc):
            continue
        return False
    return True


class Summary:
    __slots__ = ("mut", "ret_alias")

    def __init__(self):
        self.mut = {}  # param name -> list of (lineno, description)
        self.ret_alias = None  # param name or None

    def key(self):
        return (tuple(sorted((k, len(v)) for k, v in self.mut.items())), self.ret_alias)


class Effects:
    def __init__(self, repo, types, cg):
        self.repo = repo
        self.T = types
        self.cg = cg
        self.summary = {f.fq: Summary() for f in repo.all_functions()}
        self._roots_cache = {}
        self.via = {}
        self._fixpoint()

    # ------------------------------------------------------------------ alias roots inside one function
    def roots(self, fi):
        """local name -> (param, level) with level 'self' (the object is part of the parameter's structure) or 'elems' (a fresh container of such objects)."""
        params = set(fi.params)
        bindings = {}

        def add(name, val):
            bindings.setdefault(name, []).append(val)

        for n in own_nodes(fi.node):
            if isinstance(n, ast.Assign):
                for t in n.targets:
                    self._collect(t, ("expr", n.value), add)
            elif isinstance(n, ast.AnnAssign) and n.value is not None:
                self._collect(n.target, ("expr", n.value), add)
            elif isinstance(n, ast.AugAssign) and isinstance(n.target, ast.Name):
                add(n.target.id, ("fresh", None))
            elif isinstance(n, (ast.For, ast.comprehension)):
                self._collect(n.target, ("iter", n.iter), add)
            elif isinstance(n, ast.With):
                for it in n.items:
                    if it.optional_vars is not None:
                        self._collect(it.optional_vars, ("fresh", None), add)
            elif isinstance(n, ast.ExceptHandler) and n.name:
                add(n.name, ("fresh", None))
            elif isinstance(n, ast.NamedExpr) and isinstance(n.target, ast.Name):
                add(n.target.id, ("expr", n.value))
            elif isinstance(n, (ast.Import, ast.ImportFrom)):
                for a in n.names:
                    add((a.asname or a.name).split(".")[0], ("fresh", None))
        roots = {p: (p, "self") for p in params if p not in bindings}
        for _ in range(4):
            changed = False
            for name, vals in bindings.items():
                rs = set()
                for kind, v in vals:
                    if kind == "fresh":
                        rs.add(FRESH)
                    elif kind == "expr":
                        rs.add(self.root_of(v, roots, fi) or FRESH)
                    elif kind == "iter":
                        rs.add(self.elem_root(v, roots, fi) or FRESH)
                    elif kind == "iter_tuple":
                        it, idx = v
                        rs.add(self.elem_root(it, roots, fi, idx) or FRESH)
                if name in params:
                    rs.add((name, "self"))
                new = next(iter(rs)) if len(rs) == 1 and FRESH not in rs else None
                if new is not None:
                    if roots.get(name) != new:
                        roots[name] = new
                        changed = True
                elif name in roots:
                    del roots[name]
                    changed = True
            if not changed:
                break
        return roots

    def _collect(self, target, val, add):
        if isinstance(target, ast.Name):
            add(target.id, val)
        elif isinstance(target, (ast.Tuple, ast.List)):
            kind, v = val
            for i, e in enumerate(target.elts):
                if kind == "iter":
                    self._collect(e, ("iter_tuple", (v, i)), add)
                elif kind == "iter_tuple":
                    self._collect(e, ("fresh", None), add)
                elif kind == "expr" and isinstance(v, (ast.Tuple, ast.List)) and len(v.elts) == len(target.elts):
                    self._collect(e, ("expr", v.elts[i]), add)
                else:
                    self._collect(e, ("fresh", None), add)
        elif isinstance(target, ast.Starred):
            self._collect(target.value, ("fresh", None), add)

    def root_of(self, e, roots, fi):
        """(param, level) if the value of ``e`` is definitely (part of) a parameter's object graph; None otherwise."""
        if isinstance(e, ast.Name):
            return roots.get(e.id)
        if isinstance(e, ast.Attribute):
            r = self.root_of(e.value, roots, fi)
            if r is None:
                return None
            # attribute of a fresh container of param elements is not meaningful
            return (r[0], "self") if r[1] == "self" else None
        if isinstance(e, ast.Subscript):
            # d["key"] where d is a local bound (only) to a dict literal: the entry is whatever the literal put there
            if isinstance(e.value, ast.Name) and isinstance(e.slice, ast.Constant) and e.value.id not in roots:
                lits = self._dict_literals(fi, e.value.id)
                if lits is not None:
                    vals = [v for k, v in lits if isinstance(k, ast.Constant) and k.value == e.slice.value]
                    if len(vals) == 1:
                        return self.root_of(vals[0], roots, fi)
                    return None
            r = self.root_of(e.value, roots, fi)
            if r is None:
                return None
            return (r[0], "self")
        if isinstance(e, ast.Starred):
            return self.root_of(e.value, roots, fi)
        if isinstance(e, ast.IfExp):
            a, b = self.root_of(e.body, roots, fi), self.root_of(e.orelse, roots, fi)
            return a if a == b else None
        if isinstance(e, ast.BinOp) and isinstance(e.op, ast.Add):
            a, b = self.root_of(e.left, roots, fi), self.root_of(e.right, roots, fi)
            if a is not None and b is not None and a[0] == b[0]:
                return (a[0], "elems")
            return None
        if isinstance(e, ast.Call):
            fn = e.func
            if isinstance(fn, ast.Name) and fn.id in ("list", "tuple", "sorted", "reversed") and e.args:
                r = self.root_of(e.args[0], roots, fi)
                return (r[0], "elems") if r is not None else None
            if isinstance(fn, ast.Attribute) and fn.attr in ("values", "get", "pop") :
                r = self.root_of(fn.value, roots, fi)
                if r is not None and r[1] == "self":
                    t = self.T.type_at(fn.value, fi, e)
                    if not is_inst(t):
                        return (r[0], "elems") if fn.attr == "values" else (r[0], "self")
            # repo callee returning an alias of one of its parameters
            targets = [c for c, k in self.cg.resolve(fi, e) if k in ("direct", "method")]
            if targets:
                res = set()
                for c in targets:
                    s = self.summary[c.fq]
                    if s.ret_alias is None:
                        return None
                    arg = self._arg_for(c, e, s.ret_alias)
                    if arg is None:
                        return None
                    res.add(self.root_of(arg, roots, fi))
                if len(res) == 1:
                    r = next(iter(res))
                    return r
            return None
        return None

    def _dict_literals(self, fi, name):
        """(key, value) pairs if every binding of local ``name`` in ``fi`` is one dict literal (and no entry is reassigned); else None."""
        binds = []
        for n in own_nodes(fi.node):
            if isinstance(n, ast.Assign):
                for t in n.targets:
                    if isinstance(t, ast.Name) and t.id == name:
                        binds.append(n.value)
                    if isinstance(t, ast.Subscript) and isinstance(t.value, ast.Name) and t.value.id == name:
                        return None
            elif isinstance(n, (ast.AugAssign, ast.For)) and any(isinstance(x, ast.Name) and x.id == name and isinstance(x.ctx, ast.Store) for x in ast.walk(n.target)):
                return None
        if len(binds) == 1 and isinstance(binds[0], ast.Dict) and name not in fi.params:
            return list(zip(binds[0].keys, binds[0].values))
        return None

    def elem_root(self, it, roots, fi, tuple_index=None):
        """Root of the loop variable for ``for x in <it>`` (tuple_index selects a component of enumerate/zip/items)."""
        if isinstance(it, ast.Call):
            fn = it.func
            if isinstance(fn, ast.Name) and fn.id == "enumerate" and it.args:
                if tuple_index == 1:
                    return self.elem_root(it.args[0], roots, fi)
                return None
            if isinstance(fn, ast.Name) and fn.id == "zip":
                if tuple_index is not None and tuple_index < len(it.args):
                    return self.elem_root(it.args[tuple_index], roots, fi)
                return None
            if isinstance(fn, ast.Name) and fn.id in ("list", "tuple", "sorted", "reversed", "iter") and it.args:
                return self.elem_root(it.args[0], roots, fi, tuple_index)
            if isinstance(fn, ast.Attribute) and fn.attr == "items":
                if tuple_index == 1:
                    r = self.root_of(fn.value, roots, fi)
                    return (r[0], "self") if r is not None else None
                return None
            if isinstance(fn, ast.Attribute) and fn.attr == "values" and tuple_index is None:
                r = self.root_of(fn.value, roots, fi)
                return (r[0], "self") if r is not None else None
            if isinstance(fn, ast.Attribute) and fn.attr == "keys":
                return None
        if tuple_index is not None:
            return None
        r = self.root_of(it, roots, fi)
        if r is None:
            return None
        # Elements of a container that is part of the parameter's object graph are part of it too.  (If the container is a dict the loop
        # variable is a key - an immutable string/tuple - through which nothing can be mutated, so treating it as rooted is harmless.)
        return (r[0], "self")

    def _arg_for(self, callee, call, pname):
        """Argument expression of ``call`` bound to callee parameter ``pname`` (None if not determinable)."""
        params = callee.params
        if pname not in params:
            return None
        idx = params.index(pname)
        is_method_call = isinstance(call.func, ast.Attribute) and callee.cls is not None and not callee.is_static
        bound_recv = False
        if is_method_call:
            recv = call.func.value
            # ClassName.method(self, ...) passes self explicitly
            explicit = isinstance(recv, ast.Name) and self.repo.resolve_class_name(self._fi_mod(call), recv.id) is not None and not callee.is_classmethod
            bound_recv = not explicit
        if callee.cls is not None and isinstance(call.func, ast.Name):
            # constructor call ClassName(...): self is the fresh object
            if idx == 0:
                return None
            idx -= 1
        elif bound_recv:
            if idx == 0:
                if callee.is_classmethod:
                    return None
                if isinstance(call.func.value, ast.Call) and isinstance(call.func.value.func, ast.Name) and call.func.value.func.id == "super":
                    return ast.Name(id=self._self_name(call), ctx=ast.Load())
                return call.func.value
            idx -= 1
        for kw in call.keywords:
            if kw.arg == pname:
                return kw.value
        if idx < len(call.args) and not any(isinstance(a, ast.Starred) for a in call.args[: idx + 1]):
            return call.args[idx]
        return None

    def _fi_mod(self, node):
        n = node
        while n is not None and not isinstance(n, ast.Module):
            n = getattr(n, "_parent", None)
        for m in self.repo.modules.values():
            if m.tree is n:
                return m
        return next(iter(self.repo.modules.values()))

    def _self_name(self, node):
        n = node
        while n is not None and not isinstance(n, (ast.FunctionDef, ast.AsyncFunctionDef)):
            n = getattr(n, "_parent", None)
        return n.args.args[0].arg if n is not None and n.args.args else "self"

    # ------------------------------------------------------------------ per-function analysis
    def analyse(self, fi):
        s = Summary()
        roots = self.roots(fi)
        self._roots_cache[fi.fq] = roots

        def mut(root, node, desc, via=None):
            if root is None:
                return
            p, level = root
            if p not in fi.params:
                return
            s.mut.setdefault(p, [])
            entry = (getattr(node, "lineno", 0), desc)
            if entry not in s.mut[p]:
                s.mut[p].append(entry)
                if via is not None:
                    self.via[(fi.fq, p, entry[0], desc)] = via

        for n in own_nodes(fi.node):
            if isinstance(n, (ast.Assign, ast.AugAssign, ast.AnnAssign, ast.Delete)):
                targets = n.targets if isinstance(n, (ast.Assign, ast.Delete)) else [n.target]
                flat = []
                for t in targets:
                    if isinstance(t, (ast.Tuple, ast.List)):
                        flat += list(t.elts)
                    else:
                        flat.append(t)
                for t in flat:
                    if isinstance(t, (ast.Attribute, ast.Subscript)):
                        r = self.root_of(t.value, roots, fi)
                        if r is not None and r[1] == "self":
                            mut(r, n, "store `%s`" % norm(n)[:90])
                        elif r is not None and r[1] == "elems" and isinstance(t, ast.Attribute):
                            pass
            elif isinstance(n, ast.Call):
                fn = n.func
                st = enclosing_stmt(n) or n
                if isinstance(fn, ast.Name) and fn.id == "setattr" and n.args:
                    r = self.root_of(n.args[0], roots, fi)
                    if r is not None and r[1] == "self":
                        mut(r, n, "setattr `%s`" % norm(st)[:90])
                targets = [(c, k) for c, k in self.cg.resolve(fi, n) if k in ("direct", "method")]
                if len(targets) > 1:
                    # abstract placeholders of an override family (body: docstring / pass / return / raise NotImplementedError) are never the callee that runs
                    concrete = [(c, k) for c, k in targets if not _is_abstract(c)]
                    targets = concrete or targets
                if targets:
                    # parameters of the callees mutated by *all* possible targets
                    common = None
                    vias = {}
                    for c, k in targets:
                        m = set(self.summary[c.fq].mut)
                        pairs = set()
                        for pn in m:
                            arg = self._arg_for(c, n, pn)
                            if arg is not None:
                                r = self.root_of(arg, roots, fi)
                                if r is not None and r[1] == "self":
                                    pairs.add((r, c.fq if len(targets) == 1 else None, pn))
                                    vias.setdefault(r, (c.fq, pn))
                        rs = {p[0] for p in pairs}
                        common = rs if common is None else (common & rs)
                    for r in common or ():
                        mut(r, n, "call `%s` mutates its argument" % ast.unparse(n)[:80], vias.get(r))
                else:
                    if isinstance(fn, ast.Attribute) and fn.attr in BUILTIN_MUT:
                        t = self.T.type_at(fn.value, fi, n)
                        if not is_inst(t):
                            r = self.root_of(fn.value, roots, fi)
                            if r is not None and r[1] == "self":
                                # dict.pop/get-style readers are excluded: pop mutates, get does not (get is not in the list)
                                mut(r, n, "in-place `%s`" % norm(st)[:90])
                    for kw in n.keywords:
                        if kw.arg == "inplace" and isinstance(kw.value, ast.Constant) and kw.value.value is True and isinstance(fn, ast.Attribute):
                            r = self.root_of(fn.value, roots, fi)
                            if r is not None and r[1] == "self":
                                mut(r, n, "inplace=True `%s`" % norm(st)[:90])
                        if kw.arg == "out":
                            r = self.root_of(kw.value, roots, fi)
                            if r is not None and r[1] == "self":
                                mut(r, n, "out= `%s`" % norm(st)[:90])
        # return alias
        rets = [r for r in own_nodes(fi.node) if isinstance(r, ast.Return) and r.value is not None]
        if rets:
            rs = {self.root_of(r.value, roots, fi) for r in rets}
            if len(rs) == 1:
                r = next(iter(rs))
                if r is not None and r[1] == "self" and r[0] in fi.params:
                    s.ret_alias = r[0]
        return s

    def _fixpoint(self):
        byfq = {f.fq: f for f in self.repo.all_functions()}
        work = list(byfq)
        inwork = set(work)
        n = 0
        while work:
            fq = work.pop()
            inwork.discard(fq)
            n += 1
            if n > 40 * len(byfq):
                break
            new = self.analyse(byfq[fq])
            if new.key() != self.summary[fq].key():
                self.summary[fq] = new
                for caller in self.cg.g.predecessors(fq):
                    if caller not in inwork and caller in byfq:
                        work.append(caller)
                        inwork.add(caller)
            else:
                self.summary[fq] = new
        self.iterations = n

    # ------------------------------------------------------------------ queries
    def mutates(self, fi, param):
        return self.summary[fi.fq].mut.get(param, [])

    def explain(self, fi, param, depth=0):
        """Chain of call sites down to the store that mutates ``param`` of ``fi`` (one witness)."""
        out = []
        cur, p = fi, param
        byfq = {f.fq: f for f in self.repo.all_functions()} if depth == 0 else None
        seen = set()
        while cur is not None and (cur.fq, p) not in seen:
            seen.add((cur.fq, p))
            ms = self.summary[cur.fq].mut.get(p, [])
            if not ms:
                break
            line, desc = ms[0]
            out.append("%s:%d %s" % (cur.module.relpath, line, desc))
            via = self.via.get((cur.fq, p, line, desc))
            if via is None:
                break
            cur, p = byfq.get(via[0]), via[1]
        return out

    def roots_in(self, fi):
        if fi.fq not in self._roots_cache:
            self._roots_cache[fi.fq] = self.roots(fi)
        return self._roots_cache[fi.fq]
