"""
Loader and symbol table (DESIGN 3.1).

Parses every module of the package under analysis once and exposes classes, methods, nested
functions, import aliases and a normalised-text key per statement.  Nothing is imported or
executed: only ``ast.parse`` is applied to the source text.
"""
import ast
import hashlib
import os
from pathlib import Path


class AnalysisError(Exception):
    """The checker could not find or recognise a construct it is keyed on (exit 2)."""


def norm(node) -> str:
    """Normalised text of a statement or expression (comments/whitespace gone, constants kept)."""
    if isinstance(node, (ast.If, ast.While)):
        return "%s %s:" % (type(node).__name__.lower(), ast.unparse(node.test))
    if isinstance(node, (ast.For, ast.AsyncFor)):
        return "for %s in %s:" % (ast.unparse(node.target), ast.unparse(node.iter))
    if isinstance(node, ast.With):
        return "with %s:" % ", ".join(ast.unparse(i) for i in node.items)
    if isinstance(node, ast.Try):
        return "try:"
    if isinstance(node, ast.ExceptHandler):
        return "except %s:" % (ast.unparse(node.type) if node.type else "")
    if isinstance(node, (ast.FunctionDef, ast.AsyncFunctionDef)):
        return "def %s(...)" % node.name
    if isinstance(node, ast.ClassDef):
        return "class %s" % node.name
    s = ast.unparse(node)
    if len(s) > 300:
        s = s[:300] + "..."
    return s


class FuncInfo:
    def __init__(self, module, node, cls=None, parent=None):
        self.module = module  # Module
        self.node = node
        self.cls = cls  # ClassInfo or None
        self.parent = parent  # enclosing FuncInfo for nested functions
        self.name = node.name
        self.nested = {}
        if parent is not None:
            self.qualname = parent.qualname + ".<locals>." + node.name
        elif cls is not None:
            self.qualname = cls.name + "." + node.name
        else:
            self.qualname = node.name
        self.decorators = [ast.unparse(d) for d in node.decorator_list]

    @property
    def fq(self):
        return self.module.name + ":" + self.qualname

    @property
    def params(self):
        a = self.node.args
        names = [x.arg for x in a.posonlyargs + a.args]
        if a.vararg:
            names.append(a.vararg.arg)
        names += [x.arg for x in a.kwonlyargs]
        if a.kwarg:
            names.append(a.kwarg.arg)
        return names

    @property
    def is_property(self):
        return any(d == "property" or d.endswith(".setter") or d.endswith(".getter") for d in self.decorators)

    @property
    def is_setter(self):
        return any(d.endswith(".setter") for d in self.decorators)

    @property
    def is_static(self):
        return "staticmethod" in self.decorators

    @property
    def is_classmethod(self):
        return "classmethod" in self.decorators

    def loc(self, node=None):
        n = node if node is not None else self.node
        return "%s:%d" % (self.module.relpath, getattr(n, "lineno", 0))

    def __repr__(self):
        return "<Func %s>" % self.fq


class ClassInfo:
    def __init__(self, module, node):
        self.module = module
        self.node = node
        self.name = node.name
        self.base_exprs = [ast.unparse(b) for b in node.bases]
        self.methods = {}  # name -> FuncInfo (getter for properties)
        self.setters = {}  # name -> FuncInfo
        self.class_attrs = set()
        self.bases = []  # resolved ClassInfo, filled by Repo
        self.external_bases = []  # base expressions not resolved in the repo

    @property
    def fq(self):
        return self.module.name + ":" + self.name

    def __repr__(self):
        return "<Class %s>" % self.fq


class Module:
    def __init__(self, name, path, relpath, source, attr_pairs=None):
        self.name = name
        self.path = path
        self.relpath = relpath
        self.source = source
        self.digest = hashlib.sha256(source.encode()).hexdigest()
        self.tree = ast.parse(source, filename=str(path))
        from . import alpha, normalise

        if attr_pairs:
            alpha.apply_attribute_pairs(self.tree, attr_pairs)  # fields renamed package-wide back to their reviewed names (core/alpha.py)
        # meaning-preserving normalisation of spelling variants (core/normalise.py), then
        # locals renamed in the in-memory tree back to the names the rules know (alpha-equivalent program; see core/alpha.py)
        self.normalised = normalise.normalise(self.tree) if os.environ.get("VERIF_NO_NORMALISE") != "1" else {}
        self.renamings = alpha.canonicalise(self.tree, alpha.load_table().get(name)) if os.environ.get("VERIF_NO_ALPHA") != "1" else []
        if os.environ.get("VERIF_NO_NORMALISE") != "1":
            self.normalised.update(normalise.orient(self.tree, alpha.load_table("comparisons").get(name)))
        self.classes = {}
        self.functions = {}
        self.imports = {}  # alias -> ('module', dotted) or ('from', module, name)
        self.globals_assigned = set()
        self._index()

    def _index(self):
        for node in self.tree.body:
            self._index_stmt(node)
        # parent links for every node
        for parent in ast.walk(self.tree):
            for child in ast.iter_child_nodes(parent):
                child._parent = parent
        self.tree._parent = None

    def _index_stmt(self, node):
        if isinstance(node, (ast.FunctionDef, ast.AsyncFunctionDef)):
            fi = FuncInfo(self, node)
            self.functions[node.name] = fi
            self._index_nested(fi)
        elif isinstance(node, ast.ClassDef):
            ci = ClassInfo(self, node)
            self.classes[node.name] = ci
            for sub in node.body:
                if isinstance(sub, (ast.FunctionDef, ast.AsyncFunctionDef)):
                    fi = FuncInfo(self, sub, cls=ci)
                    if fi.is_setter:
                        ci.setters[sub.name] = fi
                    else:
                        ci.methods[sub.name] = fi
                    self._index_nested(fi)
                elif isinstance(sub, ast.Assign):
                    for t in sub.targets:
                        if isinstance(t, ast.Name):
                            ci.class_attrs.add(t.id)
                elif isinstance(sub, ast.AnnAssign) and isinstance(sub.target, ast.Name):
                    ci.class_attrs.add(sub.target.id)
        elif isinstance(node, ast.Import):
            for a in node.names:
                self.imports[a.asname or a.name.split(".")[0]] = ("module", a.name)
        elif isinstance(node, ast.ImportFrom):
            for a in node.names:
                self.imports[a.asname or a.name] = ("from", "." * node.level + (node.module or ""), a.name)
        elif isinstance(node, (ast.Assign, ast.AugAssign, ast.AnnAssign)):
            targets = node.targets if isinstance(node, ast.Assign) else [node.target]
            for t in targets:
                for n in ast.walk(t):
                    if isinstance(n, ast.Name):
                        self.globals_assigned.add(n.id)
        elif isinstance(node, (ast.If, ast.Try)):
            for sub in ast.iter_child_nodes(node):
                if isinstance(sub, ast.stmt):
                    self._index_stmt(sub)

    def _index_nested(self, fi):
        def visit(body_owner):
            for sub in ast.iter_child_nodes(body_owner):
                if isinstance(sub, (ast.FunctionDef, ast.AsyncFunctionDef)):
                    nf = FuncInfo(self, sub, cls=fi.cls, parent=fi)
                    fi.nested[sub.name] = nf
                    self._index_nested(nf)
                elif isinstance(sub, (ast.ClassDef, ast.Lambda)):
                    continue
                else:
                    visit(sub)

        visit(fi.node)

    def all_functions(self):
        def rec(fi):
            yield fi
            for n in fi.nested.values():
                yield from rec(n)

        for fi in self.functions.values():
            yield from rec(fi)
        for ci in self.classes.values():
            for fi in list(ci.methods.values()) + list(ci.setters.values()):
                yield from rec(fi)


_REPO_CACHE = {}


class Repo:
    """All modules of ``<root>/atomica``."""

    PACKAGE = "atomica"

    def __init__(self, root="/repo"):
        self.root = Path(root)
        pkg = self.root / self.PACKAGE
        if not pkg.is_dir():
            raise AnalysisError("package directory %s not found" % pkg)
        self.modules = {}
        self.attribute_renamings = []
        pairs = {}
        if os.environ.get("VERIF_NO_ALPHA") != "1":
            from . import alpha

            try:
                raw = {p.stem: ast.parse(p.read_text(encoding="utf-8")) for p in sorted(pkg.glob("*.py"))}
                self.attribute_renamings = alpha.canonicalise_attributes(raw, alpha.load_table("attributes"))
                pairs = {u: m for _, u, m in self.attribute_renamings}
            except SyntaxError:
                pairs = {}
        for p in sorted(pkg.glob("*.py")):
            src = p.read_text(encoding="utf-8")
            try:
                self.modules[p.stem] = Module(p.stem, p, "%s/%s" % (self.PACKAGE, p.name), src, attr_pairs=pairs)
            except SyntaxError as e:
                raise AnalysisError("cannot parse %s: %s" % (p, e))
        if len(self.modules) < 15:
            raise AnalysisError("only %d modules parsed under %s (expected the whole package)" % (len(self.modules), pkg))
        self._resolve_bases()
        self._subclasses = None

    @classmethod
    def load(cls, root="/repo"):
        return cls(root)

    # ------------------------------------------------------------------ classes
    def _resolve_bases(self):
        for m in self.modules.values():
            for ci in m.classes.values():
                for b in ci.base_exprs:
                    target = self.resolve_class_name(m, b)
                    if target is not None:
                        ci.bases.append(target)
                    elif b != "object":
                        ci.external_bases.append(b)

    def resolve_class_name(self, module, name):
        """Resolve a (possibly aliased) class name as seen from ``module``; None if not a repo class."""
        if "." in name:
            head, _, tail = name.partition(".")
            imp = module.imports.get(head)
            if imp and imp[0] == "from" and imp[1] in (".", "") and imp[2] in self.modules:
                return self.modules[imp[2]].classes.get(tail)
            return None
        if name in module.classes:
            return module.classes[name]
        imp = module.imports.get(name)
        if imp and imp[0] == "from":
            modname = imp[1].lstrip(".")
            if imp[1].startswith(".") and modname in self.modules:
                target = self.modules[modname]
                if imp[2] in target.classes:
                    return target.classes[imp[2]]
                # re-export
                imp2 = target.imports.get(imp[2])
                if imp2:
                    return self.resolve_class_name(target, imp[2])
        return None

    def resolve_function_name(self, module, name):
        """Resolve a bare name to a module-level function of the repo (following from-imports)."""
        if name in module.functions:
            return module.functions[name]
        imp = module.imports.get(name)
        if imp and imp[0] == "from":
            modname = imp[1].lstrip(".")
            if imp[1].startswith(".") and modname in self.modules:
                target = self.modules[modname]
                if imp[2] in target.functions:
                    return target.functions[imp[2]]
        return None

    def mro(self, ci):
        """Linearised list of repo classes, depth-first left-to-right without duplicates (no diamonds in this repo)."""
        out = []

        def rec(c):
            if c in out:
                return
            out.append(c)
            for b in c.bases:
                rec(b)

        rec(ci)
        return out

    def subclasses(self, ci, strict=False):
        if self._subclasses is None:
            self._subclasses = {}
            for c in self.all_classes():
                for anc in self.mro(c):
                    self._subclasses.setdefault(anc.fq, []).append(c)
        subs = list(self._subclasses.get(ci.fq, []))
        if strict:
            subs = [s for s in subs if s is not ci]
        return subs

    def is_subclass(self, ci, anc):
        return anc in self.mro(ci)

    def all_classes(self):
        for m in self.modules.values():
            yield from m.classes.values()

    def all_functions(self):
        for m in self.modules.values():
            yield from m.all_functions()

    def find_method(self, ci, name):
        """Method as seen through the MRO (None if not defined in the repo)."""
        for c in self.mro(ci):
            if name in c.methods:
                return c.methods[name]
        return None

    def find_setter(self, ci, name):
        for c in self.mro(ci):
            if name in c.setters:
                return c.setters[name]
        return None

    def override_family(self, ci, name):
        """All definitions of method ``name`` in ``ci`` and its subclasses."""
        out = []
        for c in self.subclasses(ci):
            if name in c.methods:
                out.append(c.methods[name])
        return out

    # ------------------------------------------------------------------ anchors
    def module(self, name):
        if name not in self.modules:
            raise AnalysisError("anchor module %s.py vanished" % name)
        return self.modules[name]

    def cls(self, module, name):
        m = self.module(module)
        if name not in m.classes:
            raise AnalysisError("anchor class %s.%s vanished" % (module, name))
        return m.classes[name]

    def func(self, module, qualname, setter=False):
        """Look up ``Class.method``, ``function`` or ``outer.<locals>.inner``; raise if the anchor vanished."""
        m = self.module(module)
        parts = [p for p in qualname.split(".") if p != "<locals>"]
        fi = None
        if parts[0] in m.classes and len(parts) >= 2:
            ci = m.classes[parts[0]]
            table = ci.setters if setter else ci.methods
            fi = table.get(parts[1])
            rest = parts[2:]
        elif parts[0] in m.functions:
            fi = m.functions[parts[0]]
            rest = parts[1:]
        else:
            rest = []
        for p in rest:
            if fi is None:
                break
            fi = fi.nested.get(p)
        if fi is None:
            raise AnalysisError("anchor function %s:%s vanished" % (module, qualname))
        return fi

    def has_func(self, module, qualname, setter=False):
        try:
            self.func(module, qualname, setter=setter)
            return True
        except AnalysisError:
            return False

    def digest(self):
        h = hashlib.sha256()
        for name in sorted(self.modules):
            h.update(self.modules[name].digest.encode())
        return h.hexdigest()[:16]

    def stats(self):
        nf = sum(1 for _ in self.all_functions())
        nc = sum(1 for _ in self.all_classes())
        norm_ = {}
        for m in self.modules.values():
            for k, v in getattr(m, "normalised", {}).items():
                norm_[k] = norm_.get(k, 0) + v
        ren = ["%s:%s %s->%s" % (m.name, qn, a, b) for m in self.modules.values() for qn, a, b in getattr(m, "renamings", [])]
        return {"modules": len(self.modules), "classes": nc, "functions": nf, "digest": self.digest(), "normalised_spellings": norm_, "locals_renamed_to_reviewed_names": ren[:50], "fields_renamed_to_reviewed_names": ["%s %s->%s" % r for r in self.attribute_renamings]}


# ---------------------------------------------------------------------- small AST helpers used everywhere
def own_nodes(func_node):
    """Walk a function body without descending into nested function/class definitions (lambdas are descended)."""
    stack = list(ast.iter_child_nodes(func_node))
    while stack:
        n = stack.pop()
        yield n
        if isinstance(n, (ast.FunctionDef, ast.AsyncFunctionDef, ast.ClassDef)):
            continue
        stack.extend(ast.iter_child_nodes(n))


def own_stmts(func_node):
    for n in own_nodes(func_node):
        if isinstance(n, ast.stmt):
            yield n


def calls_in(node, nested=False):
    it = ast.walk(node) if nested else ([node] + list(own_nodes(node)) if not isinstance(node, (ast.FunctionDef, ast.AsyncFunctionDef)) else own_nodes(node))
    for n in it:
        if isinstance(n, ast.Call):
            yield n


def call_name(call):
    """Dotted text of the callee ('np.minimum', 'self.update_pars', 'f')."""
    try:
        return ast.unparse(call.func)
    except Exception:
        return ""


def attr_chain(expr):
    """For a.b.c -> ['a','b','c']; None if not a pure name/attribute chain."""
    parts = []
    while isinstance(expr, ast.Attribute):
        parts.append(expr.attr)
        expr = expr.value
    if isinstance(expr, ast.Name):
        parts.append(expr.id)
        return list(reversed(parts))
    return None


def root_name(expr):
    """Root identifier of an access path made of attributes, subscripts and (optionally) nothing else."""
    while isinstance(expr, (ast.Attribute, ast.Subscript, ast.Starred)):
        expr = expr.value
    if isinstance(expr, ast.Name):
        return expr.id
    return None


def enclosing_stmt(node):
    while node is not None and not isinstance(node, ast.stmt):
        node = getattr(node, "_parent", None)
    return node


def enclosing(node, kinds):
    node = getattr(node, "_parent", None)
    while node is not None and not isinstance(node, kinds):
        node = getattr(node, "_parent", None)
    return node


def ancestors(node):
    node = getattr(node, "_parent", None)
    while node is not None:
        yield node
        node = getattr(node, "_parent", None)


def names_in(node):
    return {n.id for n in ast.walk(node) if isinstance(n, ast.Name)}


def store_targets(stmt):
    """Flattened assignment targets of a simple statement (Assign/AugAssign/AnnAssign/For/With/Delete)."""
    out = []

    def flat(t):
        if isinstance(t, (ast.Tuple, ast.List)):
            for e in t.elts:
                flat(e)
        elif isinstance(t, ast.Starred):
            flat(t.value)
        else:
            out.append(t)

    if isinstance(stmt, ast.Assign):
        for t in stmt.targets:
            flat(t)
    elif isinstance(stmt, (ast.AugAssign, ast.AnnAssign)):
        flat(stmt.target)
    elif isinstance(stmt, (ast.For, ast.AsyncFor)):
        flat(stmt.target)
    elif isinstance(stmt, ast.With):
        for i in stmt.items:
            if i.optional_vars is not None:
                flat(i.optional_vars)
    elif isinstance(stmt, ast.Delete):
        for t in stmt.targets:
            flat(t)
    return out
