"""
Truth tables over the atoms of a condition (engine 3.13).

A test is a boolean combination (and / or / not) of atoms.  An atom is a comparison, a call, a name or an attribute used
for its truth value; comparisons are normalised to a positive operator with a polarity (``x not in y`` = not ``x in y``,
``x is not None`` = not ``x is None``, ``a != b`` = not ``a == b``), so that two conditions written differently can be
compared by enumerating all assignments of their atoms (the sets are tiny: <= 10 atoms).

    cond(guards)                  -> Cond from a list of (test, polarity) as returned by cfg.guards_of
    parse_cond("a and not b")     -> Cond from text
    equivalent(c1, c2)            -> bool
    implies(c1, c2)               -> bool
"""
import ast
import itertools

_POS = {ast.NotIn: (ast.In, "in"), ast.IsNot: (ast.Is, "is"), ast.NotEq: (ast.Eq, "==")}
_TXT = {ast.In: "in", ast.Is: "is", ast.Eq: "==", ast.Lt: "<", ast.LtE: "<=", ast.Gt: ">", ast.GtE: ">="}


def _atom(e):
    """-> (atom text, polarity)"""
    if isinstance(e, ast.Compare) and len(e.ops) == 1:
        op = e.ops[0]
        l, r = ast.unparse(e.left), ast.unparse(e.comparators[0])
        if type(op) in _POS and not isinstance(op, ast.NotEq):
            return "%s %s %s" % (l, _POS[type(op)][1], r), False
        if isinstance(op, ast.Eq):
            a, b = sorted([l, r])
            return "%s == %s" % (a, b), True
        if isinstance(op, ast.NotEq):
            a, b = sorted([l, r])
            return "%s == %s" % (a, b), False
        # ordering comparisons over one canonical atom per pair: a < b;  a > b = (b < a);  a <= b = not (b < a);  a >= b = not (a < b)
        # (the two sides of the last two identities differ only when an operand is NaN, which no guard of this code base relies on)
        if isinstance(op, ast.Lt):
            return "%s < %s" % (l, r), True
        if isinstance(op, ast.Gt):
            return "%s < %s" % (r, l), True
        if isinstance(op, ast.LtE):
            return "%s < %s" % (r, l), False
        if isinstance(op, ast.GtE):
            return "%s < %s" % (l, r), False
    return ast.unparse(e), True


class Cond:
    def __init__(self, fn, atoms):
        self.fn = fn
        self.atoms = frozenset(atoms)

    def __call__(self, env):
        return self.fn(env)


def of(e):
    if isinstance(e, ast.BoolOp):
        parts = [of(v) for v in e.values]
        atoms = set().union(*[p.atoms for p in parts])
        if isinstance(e.op, ast.And):
            return Cond(lambda env, parts=parts: all(p(env) for p in parts), atoms)
        return Cond(lambda env, parts=parts: any(p(env) for p in parts), atoms)
    if isinstance(e, ast.UnaryOp) and isinstance(e.op, ast.Not):
        p = of(e.operand)
        return Cond(lambda env, p=p: not p(env), p.atoms)
    if isinstance(e, ast.Compare) and len(e.ops) > 1:
        # a <= b <= c  ->  (a <= b) and (b <= c)
        parts = []
        left = e.left
        for op, right in zip(e.ops, e.comparators):
            parts.append(of(ast.Compare(left=left, ops=[op], comparators=[right])))
            left = right
        atoms = set().union(*[p.atoms for p in parts])
        return Cond(lambda env, parts=parts: all(p(env) for p in parts), atoms)
    a, pol = _atom(e)
    return Cond(lambda env, a=a, pol=pol: env[a] if pol else not env[a], {a})


def cond(guards):
    parts = []
    for t, pol in guards:
        c = of(t)
        parts.append(c if pol else Cond(lambda env, c=c: not c(env), c.atoms))
    atoms = set().union(*[p.atoms for p in parts]) if parts else set()
    return Cond(lambda env, parts=parts: all(p(env) for p in parts), atoms)


def parse_cond(text):
    return of(ast.parse(text, mode="eval").body)


def _envs(atoms):
    atoms = sorted(atoms)
    if len(atoms) > 12:
        raise ValueError("too many atoms for a truth table: %d" % len(atoms))
    for vals in itertools.product([False, True], repeat=len(atoms)):
        yield dict(zip(atoms, vals))


def equivalent(c1, c2, assume=None):
    for env in _envs(c1.atoms | c2.atoms | (assume.atoms if assume else frozenset())):
        if assume is not None and not assume(env):
            continue
        if bool(c1(env)) != bool(c2(env)):
            return False
    return True


def implies(c1, c2):
    for env in _envs(c1.atoms | c2.atoms):
        if c1(env) and not c2(env):
            return False
    return True


def counterexample(c1, c2):
    for env in _envs(c1.atoms | c2.atoms):
        if bool(c1(env)) != bool(c2(env)):
            return {k: v for k, v in env.items()}
    return None
