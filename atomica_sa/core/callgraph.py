"""
Call graph over the resolved program (DESIGN 3.3).

Edges carry a kind:
  'direct'   bare name resolved to a repo function / nested function / class constructor
  'method'   obj.m(...) with the receiver's class known (self, typed local, ClassName.m, super().m): fans out to overriding subclasses
  'funarg'   a repo function handed to another call as an argument (partial, parallel_progress, sc.asd, sc.parallelize, map)
  'property' attribute access that runs a repo @property getter on a typed receiver
  'dunder'   obj[k], obj[k] = v on a typed repo receiver
  'byname'   receiver type unknown; method name defined by repo classes and not a common container method (over-approximation, flagged)
Rules that need *definite* facts ignore 'byname' edges; reachability rules may include them and then must report them.
"""
import ast

import networkx as nx

from .loader import own_nodes, AnalysisError
from .types import Types, is_inst

# method names too generic to resolve by name alone
COMMON = {
    "append", "extend", "insert", "remove", "pop", "clear", "update", "copy", "items", "keys", "values", "get", "sort", "index", "count", "format", "join",
    "split", "strip", "lower", "upper", "startswith", "endswith", "replace", "add", "sum", "mean", "any", "all", "fill", "reshape", "ravel", "tolist",
    "astype", "set_index", "write", "read", "close", "save", "load", "plot", "set", "setdefault", "find", "sample", "interpolate", "lstrip", "rstrip",
    "to_dict", "dropna", "iterrows", "isin", "max", "min", "flatten", "transpose", "cumsum", "round", "seed", "rand", "randn", "warning", "info", "debug", "error",
}


class CallGraph:
    def __init__(self, repo, types: Types):
        self.repo = repo
        self.T = types
        self.g = nx.MultiDiGraph()
        self.sites = {}  # (caller fq) -> list of (call node, [(callee, kind)])
        self.unresolved = 0
        self.resolved = 0
        self.byfq = {f.fq: f for f in repo.all_functions()}
        self._method_index = {}
        for ci in repo.all_classes():
            for name, m in ci.methods.items():
                self._method_index.setdefault(name, []).append(m)
        for f in self.byfq.values():
            self.g.add_node(f.fq)
        for f in list(self.byfq.values()):
            self._scan(f)

    # ------------------------------------------------------------------ resolution
    def _nested_lookup(self, fi, name):
        f = fi
        while f is not None:
            if name in f.nested:
                return f.nested[name]
            f = f.parent
        return None

    def _with_overrides(self, ci, name):
        out = []
        m = self.repo.find_method(ci, name)
        if m is not None:
            out.append(m)
        for sub in self.repo.subclasses(ci, strict=True):
            if name in sub.methods and sub.methods[name] not in out:
                out.append(sub.methods[name])
        return out

    def resolve(self, fi, call):
        """-> list of (callee FuncInfo, kind)"""
        repo = self.repo
        f = call.func
        out = []
        if isinstance(f, ast.Name):
            n = self._nested_lookup(fi, f.id)
            if n is not None:
                return [(n, "direct")]
            if f.id == "cls" and fi.is_classmethod and fi.cls is not None:
                out = [(m, "direct") for m in self._with_overrides(fi.cls, "__init__")]
                return out
            ci = repo.resolve_class_name(fi.module, f.id)
            if ci is not None:
                m = repo.find_method(ci, "__init__")
                return [(m, "direct")] if m is not None else []
            fn = repo.resolve_function_name(fi.module, f.id)
            if fn is not None:
                return [(fn, "direct")]
            return []
        if isinstance(f, ast.Attribute):
            name = f.attr
            recv = f.value
            # super().m()
            if isinstance(recv, ast.Call) and isinstance(recv.func, ast.Name) and recv.func.id == "super" and fi.cls is not None:
                for c in self.repo.mro(fi.cls)[1:]:
                    if name in c.methods:
                        return [(c.methods[name], "method")]
                return []
            # ClassName.m(...) / module.func(...)
            if isinstance(recv, ast.Name):
                ci = repo.resolve_class_name(fi.module, recv.id)
                if ci is not None:
                    m = repo.find_method(ci, name)
                    if m is not None:
                        if m.is_classmethod or m.is_static:
                            return [(x, "method") for x in self._with_overrides(ci, name)] if m.is_classmethod else [(m, "method")]
                        return [(m, "method")]
                    return []
                imp = fi.module.imports.get(recv.id)
                if imp is not None:
                    modname = None
                    if imp[0] == "module" and imp[1].split(".")[0] == repo.PACKAGE:
                        parts = imp[1].split(".")
                        modname = parts[1] if len(parts) > 1 else None
                        if modname is None:
                            # `import atomica` then atomica.X: search all modules for a public name
                            for m in repo.modules.values():
                                if name in m.functions:
                                    return [(m.functions[name], "direct")]
                                if name in m.classes:
                                    mm = repo.find_method(m.classes[name], "__init__")
                                    return [(mm, "direct")] if mm else []
                            return []
                    elif imp[0] == "from" and imp[1].startswith(".") and imp[2] in repo.modules:
                        modname = imp[2]
                    if modname in repo.modules:
                        m = repo.modules[modname]
                        if name in m.functions:
                            return [(m.functions[name], "direct")]
                        if name in m.classes:
                            mm = repo.find_method(m.classes[name], "__init__")
                            return [(mm, "direct")] if mm else []
                    return []
            t = self.T.type_at(recv, fi, call)
            if is_inst(t):
                res = []
                for ci in self.T.classes_of(t):
                    for m in self._with_overrides(ci, name):
                        if m not in res:
                            res.append(m)
                return [(m, "method") for m in res]
            if t is not None:
                return []  # builtin / library receiver
            # unknown receiver
            if name in COMMON or name.startswith("__"):
                return []
            cands = self._method_index.get(name, [])
            if cands:
                return [(m, "byname") for m in cands]
        return []

    def _scan(self, fi):
        sites = []
        for n in own_nodes(fi.node):
            if isinstance(n, ast.Call):
                targets = self.resolve(fi, n)
                extra = []
                # function-valued arguments
                for a in list(n.args) + [k.value for k in n.keywords]:
                    cand = None
                    if isinstance(a, ast.Name):
                        cand = self._nested_lookup(fi, a.id) or self.repo.resolve_function_name(fi.module, a.id)
                    elif isinstance(a, ast.Attribute) and isinstance(a.value, ast.Name) and a.value.id in fi.params[:1] and fi.cls is not None:
                        cand = self.repo.find_method(fi.cls, a.attr)
                        if cand is not None and cand.is_property:
                            cand = None
                    if cand is not None:
                        extra.append((cand, "funarg"))
                if targets or extra:
                    self.resolved += 1
                else:
                    self.unresolved += 1
                sites.append((n, targets + extra))
                for callee, kind in targets + extra:
                    self.g.add_edge(fi.fq, callee.fq, kind=kind, line=n.lineno)
            elif isinstance(n, ast.Attribute) and isinstance(n.ctx, ast.Load) and not isinstance(getattr(n, "_parent", None), ast.Call):
                t = self.T.type_at(n.value, fi, n)
                if is_inst(t):
                    for ci in self.T.classes_of(t):
                        m = self.repo.find_method(ci, n.attr)
                        if m is not None and m.is_property:
                            self.g.add_edge(fi.fq, m.fq, kind="property", line=n.lineno)
                        for sub in self.repo.subclasses(ci, strict=True):
                            m2 = sub.methods.get(n.attr)
                            if m2 is not None and m2.is_property:
                                self.g.add_edge(fi.fq, m2.fq, kind="property", line=n.lineno)
            elif isinstance(n, ast.Attribute) and isinstance(n.ctx, ast.Store):
                t = self.T.type_at(n.value, fi, n)
                if is_inst(t):
                    for ci in self.T.classes_of(t):
                        m = self.repo.find_setter(ci, n.attr)
                        if m is not None:
                            self.g.add_edge(fi.fq, m.fq, kind="property", line=n.lineno)
            elif isinstance(n, ast.Subscript):
                t = self.T.type_at(n.value, fi, n)
                if is_inst(t):
                    dn = "__setitem__" if isinstance(n.ctx, ast.Store) else "__getitem__"
                    for ci in self.T.classes_of(t):
                        for m in self._with_overrides(ci, dn):
                            self.g.add_edge(fi.fq, m.fq, kind="dunder", line=n.lineno)
        # nested functions are reachable from their parent (they are defined to be called or handed out)
        for nf in fi.nested.values():
            self.g.add_edge(fi.fq, nf.fq, kind="direct", line=nf.node.lineno)
        self.sites[fi.fq] = sites

    # ------------------------------------------------------------------ queries
    def reachable(self, roots, kinds=("direct", "method", "funarg", "property", "dunder", "byname")):
        """Set of function fq reachable from root FuncInfos over edges of the given kinds; also returns parent pointers for paths."""
        kinds = set(kinds)
        seen = {}
        stack = []
        for r in roots:
            seen[r.fq] = None
            stack.append(r.fq)
        while stack:
            n = stack.pop()
            for _, m, d in self.g.out_edges(n, data=True):
                if d["kind"] in kinds and m not in seen:
                    seen[m] = (n, d["kind"], d["line"])
                    stack.append(m)
        return seen

    def path_to(self, seen, fq):
        out = [fq]
        while seen.get(out[-1]) is not None:
            out.append(seen[out[-1]][0])
        return list(reversed(out))

    def callees(self, fi, kinds=("direct", "method", "funarg", "property", "dunder")):
        return [(self.byfq[m], d) for _, m, d in self.g.out_edges(fi.fq, data=True) if d["kind"] in kinds]

    def stats(self):
        return {"functions": self.g.number_of_nodes(), "edges": self.g.number_of_edges(), "call_sites_resolved": self.resolved, "call_sites_external_or_unresolved": self.unresolved}
