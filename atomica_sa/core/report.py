"""
Result collection: obligations, findings, notes, evidence files, known findings (DESIGN 1, 7).
"""
import json
import os
import time
from pathlib import Path

from .loader import AnalysisError, norm

VERIF = Path(__file__).resolve().parents[2]


class Finding:
    def __init__(self, prop, rule, module, function, stmt, message, line=None, extra=None):
        self.prop = prop
        self.rule = rule
        self.module = module
        self.function = function
        self.stmt = stmt
        self.message = message
        self.line = line
        self.extra = extra or {}

    @property
    def key(self):
        return (self.prop, self.rule, self.module, self.function, self.stmt)

    def as_dict(self):
        d = {"property": self.prop, "rule": self.rule, "module": self.module, "function": self.function, "stmt": self.stmt, "message": self.message, "site": "%s:%s" % (self.module, self.line)}
        if self.extra:
            d["extra"] = self.extra
        return d


class Ctx:
    """Per-run collector handed to every rule."""

    def __init__(self, repo, prop, tier="quick", seed=0):
        self.repo = repo
        self.prop = prop
        self.tier = tier
        self.seed = seed
        self.obligations = []  # dicts: rule, site, fact, ok
        self.findings = []
        self.notes = []
        self.instances = {}
        self.examined = 0
        self.rule_docs = {}
        self.extra = {}
        self.trusted = []
        self.analysis_errors = []

    def each(self, fn, *args):
        """Run one rule; an unrecognised construct in it must not hide the verdicts of the other rules."""
        try:
            return fn(*args)
        except AnalysisError as e:
            self.analysis_errors.append("%s: %s" % (getattr(fn, "__name__", "rule"), e))

    # -- bookkeeping
    def rule(self, rule_id, doc):
        self.rule_docs[rule_id] = doc
        self.instances.setdefault(rule_id, 0)

    def examine(self, n=1):
        self.examined += n

    def ok(self, rule, fi_or_site, fact, node=None):
        site = self._site(fi_or_site, node)
        self.obligations.append({"rule": rule, "site": site, "fact": fact, "ok": True})
        self.instances[rule] = self.instances.get(rule, 0) + 1

    def fail(self, rule, fi, node, message, extra=None, stmt_text=None):
        """Record a violated obligation.  Keyed by (rule, module, function, normalised statement)."""
        site = self._site(fi, node)
        self.obligations.append({"rule": rule, "site": site, "fact": message, "ok": False})
        self.instances[rule] = self.instances.get(rule, 0) + 1
        stmt = stmt_text if stmt_text is not None else (norm(node) if node is not None else "")
        f = Finding(self.prop, rule, fi.module.relpath if hasattr(fi, "module") else str(fi), getattr(fi, "qualname", ""), stmt, message, getattr(node, "lineno", None), extra)
        # de-duplicate on key
        if f.key not in {x.key for x in self.findings}:
            self.findings.append(f)

    def check(self, cond, rule, fi, node, ok_fact, fail_msg, extra=None, stmt_text=None):
        if cond:
            self.ok(rule, fi, ok_fact, node)
        else:
            self.fail(rule, fi, node, fail_msg, extra, stmt_text)
        return bool(cond)

    def note(self, rule, text):
        self.notes.append({"rule": rule, "note": text})

    def require(self, cond, what):
        """An anchored construct / idiom the rule is keyed on must be recognisable, else exit 2."""
        if not cond:
            raise AnalysisError(what)

    def min_instances(self, rule, n):
        got = self.instances.get(rule, 0)
        if got < n:
            raise AnalysisError("rule %s matched %d instances, fewer than the %d confirmed by hand" % (rule, got, n))

    def _site(self, fi, node):
        if isinstance(fi, str):
            return fi
        line = getattr(node, "lineno", None) if node is not None else getattr(fi.node, "lineno", None)
        return "%s:%s %s" % (fi.module.relpath, line, fi.qualname)


def load_known():
    p = VERIF / "known_findings.json"
    if not p.exists():
        return {"known": [], "fixed": []}
    return json.loads(p.read_text())


def match_known(f, entry):
    return entry.get("property") == f.prop and entry.get("rule") == f.rule and entry.get("module") == f.module and entry.get("function") == f.function and entry.get("stmt") == f.stmt


def finalize(ctx, t0, level="other", explanation="", assumptions=None, write=True, evidence_dir=None, selftest=None):
    """Split findings into known / new, write evidence + replay, print the verdict lines, return exit code."""
    known = load_known()
    known_list = [e for e in known.get("known", []) if e.get("property") == ctx.prop]
    new, listed = [], []
    for f in ctx.findings:
        if any(match_known(f, e) for e in known_list):
            listed.append(f)
        else:
            new.append(f)
    evidence_dir = Path(evidence_dir) if evidence_dir else VERIF / "evidence"
    evidence_dir.mkdir(parents=True, exist_ok=True)
    (evidence_dir / "replay").mkdir(parents=True, exist_ok=True)
    n_ob = len(ctx.obligations)
    n_ok = sum(1 for o in ctx.obligations if o["ok"])
    distinct = len({(o["rule"], o["site"], o["fact"]) for o in ctx.obligations})
    samples = []
    seen_rules = set()
    for o in ctx.obligations:
        if o["rule"] not in seen_rules:
            seen_rules.add(o["rule"])
            samples.append(o)
    for f in new[:10]:
        samples.append({"violation": f.as_dict()})
    cov = {
        "explanation": explanation,
        "obligations": n_ob,
        "discharged": n_ok,
        "evaluations": max(ctx.examined, n_ob),
        "distinct_nontrivial": distinct,
        "rule": "one obligation per (rule, site, fact) decided from the syntax tree / CFG / call graph of /repo's current sources; distinct = distinct triples; non-trivial = the rule had at least one dataflow, path or agreement fact to decide at that site",
        "checker_cmd": "/venv/bin/python /verif/check %s --tier %s" % (ctx.prop, ctx.tier),
        "analysed": ctx.repo.stats(),
        "rules": ctx.rule_docs,
        "instances": ctx.instances,
        "samples": samples[:40],
        "all_obligations": ctx.obligations if ctx.tier == "thorough" else ctx.obligations[:200],
        "known_findings": [f.as_dict() for f in listed],
        "analysis_errors": ctx.analysis_errors,
        "notes": ctx.notes,
        "trusted_base": ["CPython %s ast" % ".".join(map(str, __import__("sys").version_info[:3])), "networkx dominators/toposort", "idiom and dimension tables in /verif/atomica_sa/rules"] + ctx.trusted,
        "exhaustive": False,
    }
    cov.update(ctx.extra)
    if selftest is not None:
        cov["selftest"] = selftest
    ev = {
        "property_id": ctx.prop,
        "tier": ctx.tier,
        "seed": int(ctx.seed),
        "level": level,
        "coverage": cov,
        "assumptions": assumptions or ["no monkey-patching of atomica classes at run time", "dynamic attribute sites of DESIGN section 2 reviewed by hand", "external libraries (numpy, sciris, pandas, networkx, scipy) behave as documented"],
        "wall_s": round(time.time() - t0, 3),
        "violations": len(new),
    }
    if write:
        (evidence_dir / ("%s.json" % ctx.prop)).write_text(json.dumps(ev, indent=1, default=str))
    for f in listed:
        print("KNOWN-FINDING: property=%s %s %s:%s [%s] %s" % (ctx.prop, f.rule, f.module, f.function, f.stmt[:80], f.message))
    print("%s: %d obligations, %d discharged, %d known, %d new; rules %s" % (ctx.prop, n_ob, n_ok, len(listed), len(new), " ".join("%s=%d" % kv for kv in sorted(ctx.instances.items()))))
    for e in ctx.analysis_errors:
        print("ANALYSIS-ERROR property=%s %s" % (ctx.prop, e))
    if new:
        replay = evidence_dir / "replay" / ("%s.json" % ctx.prop)
        replay.write_text(json.dumps([f.as_dict() for f in new], indent=1))
        for f in new:
            print("  FINDING %s %s:%s %s\n          stmt: %s\n          %s" % (f.rule, f.module, f.line, f.function, f.stmt[:160], f.message))
        print("VIOLATION property=%s replay=%s" % (ctx.prop, replay))
        return 1
    return 2 if ctx.analysis_errors else 0
