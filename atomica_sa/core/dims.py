"""
Dimension algebra over expression trees (DESIGN 3.6).

Dimensions are integer-exponent vectors over base symbols (N people, $ money, Y years, P a parameter's own period).
`*` and `/` add and subtract exponents; `+ - min max np.minimum np.maximum` and comparisons require equal operands;
exp/log require a dimensionless argument; subscripts, sums and array promotions preserve the dimension.
Numeric literals are dimensionless, except the literal 0 which is polymorphic (0 people == 0 anything).
Rearranging an expression never changes its dimension; dropping, duplicating or inverting a factor always does.
"""
import ast


class Dim:
    __slots__ = ("e",)

    def __init__(self, e=None):
        self.e = {k: v for k, v in (e or {}).items() if v}

    def __mul__(self, o):
        d = dict(self.e)
        for k, v in o.e.items():
            d[k] = d.get(k, 0) + v
        return Dim(d)

    def __truediv__(self, o):
        d = dict(self.e)
        for k, v in o.e.items():
            d[k] = d.get(k, 0) - v
        return Dim(d)

    def __pow__(self, n):
        return Dim({k: v * n for k, v in self.e.items()})

    def __eq__(self, o):
        return isinstance(o, Dim) and self.e == o.e

    def __hash__(self):
        return hash(tuple(sorted(self.e.items())))

    def __repr__(self):
        if not self.e:
            return "1"
        num = "*".join(k if v == 1 else "%s^%d" % (k, v) for k, v in sorted(self.e.items()) if v > 0)
        den = "*".join(k if v == -1 else "%s^%d" % (k, -v) for k, v in sorted(self.e.items()) if v < 0)
        return (num or "1") + ("/" + den if den else "")


ONE = Dim()
N = Dim({"N": 1})
USD = Dim({"$": 1})
Y = Dim({"Y": 1})
P = Dim({"P": 1})


class Poly:
    """The literal zero (or nan/inf): compatible with every dimension."""

    def __repr__(self):
        return "any"


ANY = Poly()


class DimError(Exception):
    def __init__(self, node, msg):
        super().__init__(msg)
        self.node = node
        self.msg = msg


class Unknown(Exception):
    def __init__(self, node, msg):
        super().__init__(msg)
        self.node = node
        self.msg = msg


SAME_DIM_CALLS = {"min", "max", "np.minimum", "np.maximum", "np.fmin", "np.fmax"}
PRESERVE_CALLS = {"sum", "np.sum", "np.array", "sc.promotetoarray", "np.asarray", "float", "abs", "np.abs", "np.nansum", "np.mean", "np.copy", "sc.dcp", "np.full"}
DIMLESS_ARG_CALLS = {"np.exp", "np.log", "math.exp", "math.log", "exp", "log"}
PRESERVE_METHODS = {"sum", "copy", "reshape", "ravel", "flatten", "tolist", "mean", "squeeze", "astype"}


class DimEval:
    def __init__(self, env, call_hook=None):
        """env: {expression text: Dim}.  call_hook(call_node, evaluator) -> Dim | None for repo-specific callees."""
        self.env = dict(env)
        self.call_hook = call_hook

    def merge(self, a, b, node, what):
        if isinstance(a, Poly):
            return b
        if isinstance(b, Poly):
            return a
        if a != b:
            raise DimError(node, "%s combines %r with %r in `%s`" % (what, a, b, ast.unparse(node)))
        return a

    def ev(self, e):
        txt = ast.unparse(e)
        if txt in self.env:
            return self.env[txt]
        if isinstance(e, ast.Constant):
            if isinstance(e.value, (int, float)) and not isinstance(e.value, bool):
                return ANY if e.value == 0 else ONE
            raise Unknown(e, "non-numeric constant %r" % (e.value,))
        if isinstance(e, ast.Name):
            raise Unknown(e, "no dimension known for `%s`" % e.id)
        if isinstance(e, ast.Attribute):
            if txt in ("np.nan", "np.inf", "math.inf", "math.nan"):
                return ANY
            if txt in ("np.pi", "math.pi"):
                return ONE
            raise Unknown(e, "no dimension known for `%s`" % txt)
        if isinstance(e, ast.Subscript):
            return self.ev(e.value)
        if isinstance(e, ast.UnaryOp):
            return self.ev(e.operand)
        if isinstance(e, ast.BinOp):
            l, r = self.ev(e.left), self.ev(e.right)
            if isinstance(e.op, (ast.Add, ast.Sub)):
                return self.merge(l, r, e, "+/-")
            if isinstance(e.op, ast.Mult):
                if isinstance(l, Poly) or isinstance(r, Poly):
                    return ANY
                return l * r
            if isinstance(e.op, (ast.Div, ast.FloorDiv)):
                if isinstance(l, Poly):
                    return ANY
                if isinstance(r, Poly):
                    raise DimError(e, "division by a literal zero in `%s`" % txt)
                return l / r
            if isinstance(e.op, ast.Pow):
                if isinstance(e.right, ast.Constant) and isinstance(e.right.value, int):
                    return l if isinstance(l, Poly) else l ** e.right.value
                if isinstance(e.right, ast.UnaryOp) and isinstance(e.right.op, ast.USub) and isinstance(e.right.operand, ast.Constant) and isinstance(e.right.operand.value, int):
                    return l if isinstance(l, Poly) else l ** (-e.right.operand.value)
                if l == ONE:
                    return ONE
                raise Unknown(e, "non-integer power of a dimensioned quantity")
            if isinstance(e.op, ast.Mod):
                return l
            raise Unknown(e, "operator %s" % type(e.op).__name__)
        if isinstance(e, ast.IfExp):
            return self.merge(self.ev(e.body), self.ev(e.orelse), e, "conditional expression")
        if isinstance(e, ast.Compare):
            d = self.ev(e.left)
            for c in e.comparators:
                d = self.merge(d, self.ev(c), e, "comparison")
            return ONE
        if isinstance(e, ast.BoolOp):
            for v in e.values:
                self.ev(v)
            return ONE
        if isinstance(e, (ast.List, ast.Tuple)):
            d = ANY
            for x in e.elts:
                d = self.merge(d, self.ev(x), e, "sequence")
            return d
        if isinstance(e, (ast.ListComp, ast.GeneratorExp)):
            return self.ev(e.elt)
        if isinstance(e, ast.Call):
            if self.call_hook is not None:
                r = self.call_hook(e, self)
                if r is not None:
                    return r
            fn = ast.unparse(e.func)
            if fn in SAME_DIM_CALLS:
                d = ANY
                for a in e.args:
                    d = self.merge(d, self.ev(a), e, fn)
                for kw in e.keywords:
                    if kw.arg == "out":
                        d = self.merge(d, self.ev(kw.value), e, fn + "(out=)")
                return d
            if fn in PRESERVE_CALLS and e.args:
                return self.ev(e.args[0])
            if fn in DIMLESS_ARG_CALLS and e.args:
                d = self.ev(e.args[0])
                if not isinstance(d, Poly) and d != ONE:
                    raise DimError(e, "%s of a quantity with dimension %r" % (fn, d))
                return ONE
            if fn in ("np.divide", "np.true_divide") and len(e.args) >= 2:
                l, r = self.ev(e.args[0]), self.ev(e.args[1])
                d = ANY if isinstance(l, Poly) else (l / r if not isinstance(r, Poly) else None)
                if d is None:
                    raise DimError(e, "division by a literal zero")
                for kw in e.keywords:
                    if kw.arg == "out":
                        d = self.merge(d, self.ev(kw.value), e, "np.divide(out=)")
                    elif kw.arg == "where":
                        self.ev(kw.value)
                return d
            if fn in ("np.multiply",) and len(e.args) >= 2:
                l, r = self.ev(e.args[0]), self.ev(e.args[1])
                return ANY if isinstance(l, Poly) or isinstance(r, Poly) else l * r
            if fn in ("np.ones_like", "np.ones", "np.zeros_like", "np.zeros", "np.empty", "np.empty_like"):
                return ONE if "ones" in fn else ANY
            if fn in ("np.where",) and len(e.args) == 3:
                self.ev(e.args[0])
                return self.merge(self.ev(e.args[1]), self.ev(e.args[2]), e, "np.where")
            if fn in ("np.clip",) and len(e.args) == 3:
                d = self.ev(e.args[0])
                for a in e.args[1:]:
                    if not (isinstance(a, ast.Constant) and a.value is None):
                        d = self.merge(d, self.ev(a), e, "np.clip")
                return d
            if isinstance(e.func, ast.Attribute) and e.func.attr in PRESERVE_METHODS:
                return self.ev(e.func.value)
            raise Unknown(e, "call `%s` has no dimension rule" % fn)
        raise Unknown(e, "expression kind %s" % type(e).__name__)


def _terminates(block):
    from .cfg import terminates

    return terminates(block)


class DimWalker:
    """
    Structured abstract interpretation of a function body over the dimension domain.

    refine(test, env) -> (env_true, env_false): split the environment on a unit test (e.g. `par.units == FS.X`).
    on_store(target, dim_or_exc, stmt, env): called for every store whose target is not a plain local name.
    on_error(stmt, DimError): called for every dimensional inconsistency found while evaluating a statement.
    """

    def __init__(self, refine=None, on_store=None, on_error=None, call_hook=None, on_return=None):
        self.refine = refine or (lambda test, env: (dict(env), dict(env)))
        self.on_store = on_store or (lambda *a: None)
        self.on_error = on_error or (lambda *a: None)
        self.on_return = on_return
        self.call_hook = call_hook

    def ev(self, e, env, stmt):
        try:
            return DimEval(env, self.call_hook).ev(e)
        except DimError as ex:
            self.on_error(stmt, ex)
            return ex
        except Unknown as ex:
            return ex

    def merge_envs(self, a, b):
        out = {}
        for k in set(a) & set(b):
            if isinstance(a[k], Poly):
                out[k] = b[k]
            elif isinstance(b[k], Poly):
                out[k] = a[k]
            elif a[k] == b[k]:
                out[k] = a[k]
        return out

    def run(self, stmts, env):
        for s in stmts:
            env = self.stmt(s, env)
        return env

    def stmt(self, s, env):
        if isinstance(s, ast.Assign):
            d = self.ev(s.value, env, s)
            for t in s.targets:
                self._assign(t, d, s, env)
            return env
        if isinstance(s, ast.AnnAssign) and s.value is not None:
            self._assign(s.target, self.ev(s.value, env, s), s, env)
            return env
        if isinstance(s, ast.AugAssign):
            fake = ast.BinOp(left=_load(s.target), op=s.op, right=s.value)
            ast.copy_location(fake, s)
            ast.fix_missing_locations(fake)
            d = self.ev(fake, env, s)
            self._assign(s.target, d, s, env)
            return env
        if isinstance(s, ast.If):
            self.ev(s.test, env, s)
            et, ef = self.refine(s.test, env)
            if et is None and ef is None:
                return env
            if et is None:  # the rule decided the test is false under its current assumption
                return self.run(s.orelse, ef)
            if ef is None:
                return self.run(s.body, et)
            et = self.run(s.body, et)
            ef = self.run(s.orelse, ef)
            if _terminates(s.body) and not _terminates(s.orelse):
                return ef
            if s.orelse and _terminates(s.orelse) and not _terminates(s.body):
                return et
            return self.merge_envs(et, ef)
        if isinstance(s, (ast.For, ast.While)):
            body_env = self.run(s.body, dict(env))
            return self.merge_envs(env, body_env) if True else env
        if isinstance(s, ast.Try):
            e1 = self.run(s.body, dict(env))
            for h in s.handlers:
                self.run(h.body, dict(env))
            e1 = self.run(s.orelse, e1)
            e1 = self.run(s.finalbody, e1)
            return e1
        if isinstance(s, ast.With):
            return self.run(s.body, env)
        if isinstance(s, ast.Return):
            if s.value is not None and self.on_return is not None:
                self.on_return(s, self.ev(s.value, env, s), env)
            return env
        if isinstance(s, ast.Expr):
            if isinstance(s.value, ast.Call):
                # evaluate for embedded inconsistencies only when all operands are known
                r = self.ev(s.value, env, s)
            return env
        return env

    def _assign(self, t, d, s, env):
        if isinstance(t, ast.Name):
            if isinstance(d, Exception):
                env.pop(t.id, None)
            else:
                env[t.id] = d
        elif isinstance(t, (ast.Tuple, ast.List)):
            for e in t.elts:
                if isinstance(e, ast.Name):
                    env.pop(e.id, None)
        else:
            base = t
            while isinstance(base, ast.Subscript):
                base = base.value
            if isinstance(base, ast.Name):
                if isinstance(d, Exception):
                    env.pop(ast.unparse(t), None)
                    return
                sl = t.slice if isinstance(t, ast.Subscript) else None
                array_like = isinstance(sl, (ast.Slice, ast.Tuple)) or (isinstance(sl, ast.Constant) and isinstance(sl.value, int)) or (isinstance(sl, ast.UnaryOp))
                if array_like:
                    # element store into a local array: the array takes (keeps) the element's dimension
                    old = env.get(base.id)
                    if old is None or isinstance(old, Poly):
                        env[base.id] = d
                    elif not isinstance(d, Poly) and old != d:
                        self.on_error(s, DimError(s, "element of dimension %r stored into `%s` of dimension %r" % (d, base.id, old)))
                else:
                    # keyed store (dict entry): the entry has its own dimension; the container is heterogeneous
                    env[ast.unparse(t)] = d
                    if isinstance(env.get(base.id), Poly) or base.id not in env:
                        env[base.id] = d
                    elif env.get(base.id) != d:
                        env.pop(base.id, None)
                return
            self.on_store(t, d, s, env)


def _load(t):
    # detached copy in Load context (the original carries parent links into the whole module, so never deepcopy it)
    return ast.parse(ast.unparse(t), mode="eval").body
