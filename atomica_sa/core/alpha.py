"""
Alpha-renaming of function locals back to the names the rules were written against (engine 3.14).

Several rules name a local of the function they inspect (``x0_scaled``, ``net_inflow``, ``t_filter`` ...).  Renaming a
local is the commonest behaviour-preserving edit, so before any rule runs every function of the tree is compared with
the frozen list of its locals (rules/tables/locals.json: local -> shape of the statement that first binds it).  When the
function binds a name the table does not know AND lacks a name the table knows, the unknown name is renamed - in the
in-memory syntax tree only - to the missing one if

  * there is exactly one unknown and one missing name, or the shapes of their first binding statements (with all
    local names erased) are equal and that match is unique in both directions, and
  * the table's name does not occur anywhere in the function, the tree's name is not a parameter / global / nonlocal
    / lambda or nested-function argument.

Renaming every occurrence of one local identifier to an identifier that is unused in the function yields an
alpha-equivalent program, so whatever the rules then decide holds for the tree as written; a wrong guess cannot make a
verdict unsound, it can only fail to spare a false alarm.  Each renaming is recorded (Repo.renamings) and printed in the
evidence.
"""
import ast
import json
import os

TABLE = os.path.join(os.path.dirname(os.path.dirname(os.path.abspath(__file__))), "rules", "tables", "locals.json")


def functions_of(tree):
    for n in tree.body:
        if isinstance(n, (ast.FunctionDef, ast.AsyncFunctionDef)):
            yield n.name, n
        elif isinstance(n, ast.ClassDef):
            for m in n.body:
                if isinstance(m, (ast.FunctionDef, ast.AsyncFunctionDef)):
                    kind = ""
                    for d in m.decorator_list:
                        if isinstance(d, ast.Attribute) and d.attr in ("setter", "deleter"):
                            kind = "@" + d.attr
                    yield "%s.%s%s" % (n.name, m.name, kind), m


def _params(fn):
    a = fn.args
    return {x.arg for x in a.posonlyargs + a.args + a.kwonlyargs} | ({a.vararg.arg} if a.vararg else set()) | ({a.kwarg.arg} if a.kwarg else set())


def _stmt_of(node, parents):
    while node is not None and not isinstance(node, ast.stmt):
        node = parents.get(id(node))
    return node


def local_shapes(fn):
    """local name -> shape text of the statement that first binds it (all bound names erased); parameters excluded"""
    parents = {}
    for p in ast.walk(fn):
        for c in ast.iter_child_nodes(p):
            parents[id(c)] = p
    params = _params(fn)
    stores = {}
    for n in ast.walk(fn):
        if isinstance(n, ast.Name) and isinstance(n.ctx, ast.Store) and n.id not in params:
            if n.id not in stores or (n.lineno, n.col_offset) < (stores[n.id].lineno, stores[n.id].col_offset):
                stores[n.id] = n
        elif isinstance(n, ast.ExceptHandler) and n.name and n.name not in params:
            stores.setdefault(n.name, n)
    bound = set(stores)
    out = {}
    for name, node in stores.items():
        st = node if isinstance(node, ast.ExceptHandler) else _stmt_of(node, parents)
        if isinstance(st, (ast.For, ast.While, ast.If, ast.With, ast.Try, ast.ExceptHandler)):
            # header only
            if isinstance(st, ast.For):
                txt = "for %s in %s" % (ast.unparse(st.target), ast.unparse(st.iter))
            elif isinstance(st, ast.With):
                txt = "with " + ", ".join(ast.unparse(i) for i in st.items)
            elif isinstance(st, ast.ExceptHandler):
                txt = "except %s as %s" % (ast.unparse(st.type) if st.type else "", st.name)
            else:
                txt = type(st).__name__
        else:
            txt = ast.unparse(st) if st is not None else ""
        try:
            t = ast.parse(txt + (": pass" if txt.startswith(("for ", "with ")) else "")) if not txt.startswith("except") else None
        except SyntaxError:
            t = None
        if t is not None:
            for x in ast.walk(t):
                if isinstance(x, ast.Name) and x.id in bound:
                    x.id = "_"
            txt = ast.unparse(t)
        else:
            for b in sorted(bound, key=len, reverse=True):
                txt = txt.replace(b, "_")
        out[name] = txt[:300]
    return out


def _blocked(fn, name):
    for n in ast.walk(fn):
        if isinstance(n, ast.arg) and n.arg == name:
            return True
        if isinstance(n, (ast.Global, ast.Nonlocal)) and name in n.names:
            return True
        if isinstance(n, (ast.FunctionDef, ast.AsyncFunctionDef, ast.ClassDef)) and n is not fn and n.name == name:
            return True
        if isinstance(n, ast.alias) and (n.asname or n.name.split(".")[0]) == name:
            return True
    return False


def canonicalise(tree, table):
    """Rename locals in place; -> [(qualname, actual, canonical)]"""
    done = []
    if not table:
        return done
    for qn, fn in functions_of(tree):
        canon = table.get(qn)
        if canon is None:
            continue
        actual = local_shapes(fn)
        unknown = sorted(set(actual) - set(canon))
        missing = sorted(set(canon) - set(actual))
        if not unknown or not missing:
            continue
        used = {n.id for n in ast.walk(fn) if isinstance(n, ast.Name)} | {n.arg for n in ast.walk(fn) if isinstance(n, ast.arg)}
        pairs = []
        if len(unknown) == 1 and len(missing) == 1:
            pairs = [(unknown[0], missing[0])]
        else:
            for u in unknown:
                cands = [m for m in missing if canon[m] == actual[u]]
                if len(cands) == 1 and len([v for v in unknown if actual[v] == actual[u]]) == 1:
                    pairs.append((u, cands[0]))
        for u, m in pairs:
            if m in used or _blocked(fn, u):
                continue
            for n in ast.walk(fn):
                if isinstance(n, ast.Name) and n.id == u:
                    n.id = m
                elif isinstance(n, ast.ExceptHandler) and n.name == u:
                    n.name = m
            done.append((qn, u, m))
    return done


_cache = {}


def load_table(which="locals"):
    if which not in _cache:
        try:
            _cache[which] = json.load(open(os.path.join(os.path.dirname(TABLE), "%s.json" % which)))
        except FileNotFoundError:
            _cache[which] = {}
    return _cache[which]
