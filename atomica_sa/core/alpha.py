"""
Alpha-renaming of function locals back to the names the rules were written against (engine 3.14).

Several rules name a local of the function they inspect (``x0_scaled``, ``net_inflow``, ``t_filter`` ...).  Renaming a
local is the commonest behaviour-preserving edit, so before any rule runs every function of the tree is compared with
the frozen list of its locals (rules/tables/locals.json: local -> shape of the statement that first binds it).  When the
function binds a name the table does not know AND lacks a name the table knows, the unknown name is renamed - in the
in-memory syntax tree only - to the missing one if

  * there is exactly one unknown and one missing name, or the shapes of their first binding statements (with all
    local names erased) are equal and that match is unique in both directions, and
  * the table's name does not occur anywhere in the function, the tree's name is not a parameter / global / nonlocal
    / lambda or nested-function argument.

Renaming every occurrence of one local identifier to an identifier that is unused in the function yields an
alpha-equivalent program, so whatever the rules then decide holds for the tree as written; a wrong guess cannot make a
verdict unsound, it can only fail to spare a false alarm.  Each renaming is recorded (Repo.renamings) and printed in the
evidence.
"""
import ast
import json
import os

TABLE = os.path.join(os.path.dirname(os.path.dirname(os.path.abspath(__file__))), "rules", "tables", "locals.json")


def functions_of(tree):
    for n in tree.body:
        if isinstance(n, (ast.FunctionDef, ast.AsyncFunctionDef)):
            yield n.name, n
        elif isinstance(n, ast.ClassDef):
            for m in n.body:
                if isinstance(m, (ast.FunctionDef, ast.AsyncFunctionDef)):
                    kind = ""
                    for d in m.decorator_list:
                        if isinstance(d, ast.Attribute) and d.attr in ("setter", "deleter"):
                            kind = "@" + d.attr
                    yield "%s.%s%s" % (n.name, m.name, kind), m


def _params(fn):
    a = fn.args
    return {x.arg for x in a.posonlyargs + a.args + a.kwonlyargs} | ({a.vararg.arg} if a.vararg else set()) | ({a.kwarg.arg} if a.kwarg else set())


def _stmt_of(node, parents):
    while node is not None and not isinstance(node, ast.stmt):
        node = parents.get(id(node))
    return node


def local_shapes(fn):
    """local name -> shape text of the statement that first binds it (all bound names erased); parameters excluded"""
    parents = {}
    for p in ast.walk(fn):
        for c in ast.iter_child_nodes(p):
            parents[id(c)] = p
    params = _params(fn)
    stores = {}
    for n in ast.walk(fn):
        if isinstance(n, ast.Name) and isinstance(n.ctx, ast.Store) and n.id not in params:
            if n.id not in stores or (n.lineno, n.col_offset) < (stores[n.id].lineno, stores[n.id].col_offset):
                stores[n.id] = n
        elif isinstance(n, ast.ExceptHandler) and n.name and n.name not in params:
            stores.setdefault(n.name, n)
    bound = set(stores)
    out = {}
    for name, node in stores.items():
        st = node if isinstance(node, ast.ExceptHandler) else _stmt_of(node, parents)
        if isinstance(st, (ast.For, ast.While, ast.If, ast.With, ast.Try, ast.ExceptHandler)):
            # header only
            if isinstance(st, ast.For):
                txt = "for %s in %s" % (ast.unparse(st.target), ast.unparse(st.iter))
            elif isinstance(st, ast.With):
                txt = "with " + ", ".join(ast.unparse(i) for i in st.items)
            elif isinstance(st, ast.ExceptHandler):
                txt = "except %s as %s" % (ast.unparse(st.type) if st.type else "", st.name)
            else:
                txt = type(st).__name__
        else:
            txt = ast.unparse(st) if st is not None else ""
        try:
            t = ast.parse(txt + (": pass" if txt.startswith(("for ", "with ")) else "")) if not txt.startswith("except") else None
        except SyntaxError:
            t = None
        if t is not None:
            for x in ast.walk(t):
                if isinstance(x, ast.Name) and x.id in bound:
                    x.id = "_"
            txt = ast.unparse(t)
        else:
            for b in sorted(bound, key=len, reverse=True):
                txt = txt.replace(b, "_")
        out[name] = txt[:300]
    return out


def _blocked(fn, name):
    for n in ast.walk(fn):
        if isinstance(n, ast.arg) and n.arg == name:
            return True
        if isinstance(n, (ast.Global, ast.Nonlocal)) and name in n.names:
            return True
        if isinstance(n, (ast.FunctionDef, ast.AsyncFunctionDef, ast.ClassDef)) and n is not fn and n.name == name:
            return True
        if isinstance(n, ast.alias) and (n.asname or n.name.split(".")[0]) == name:
            return True
    return False


def canonicalise(tree, table):
    """Rename locals in place; -> [(qualname, actual, canonical)]"""
    done = []
    if not table:
        return done
    for qn, fn in functions_of(tree):
        canon = table.get(qn)
        if canon is None:
            continue
        actual = local_shapes(fn)
        unknown = sorted(set(actual) - set(canon))
        missing = sorted(set(canon) - set(actual))
        if not unknown or not missing:
            continue
        used = {n.id for n in ast.walk(fn) if isinstance(n, ast.Name)} | {n.arg for n in ast.walk(fn) if isinstance(n, ast.arg)}
        pairs = []
        if len(unknown) == 1 and len(missing) == 1:
            pairs = [(unknown[0], missing[0])]
        else:
            for u in unknown:
                cands = [m for m in missing if canon[m] == actual[u]]
                if len(cands) == 1 and len([v for v in unknown if actual[v] == actual[u]]) == 1:
                    pairs.append((u, cands[0]))
        for u, m in pairs:
            if m in used or _blocked(fn, u):
                continue
            for n in ast.walk(fn):
                if isinstance(n, ast.Name) and n.id == u:
                    n.id = m
                elif isinstance(n, ast.ExceptHandler) and n.name == u:
                    n.name = m
            done.append((qn, u, m))
    return done


_cache = {}


def load_table(which="locals"):
    if which not in _cache:
        try:
            _cache[which] = json.load(open(os.path.join(os.path.dirname(TABLE), "%s.json" % which)))
        except FileNotFoundError:
            _cache[which] = {}
    return _cache[which]


# ---------------------------------------------------------------------------------------------------------------------
# attribute names (fields stored on self): the same idea one level up
#
# rules/tables/attributes.json freezes, per class of the reviewed tree, the fields its methods store on `self` (with the erased
# shape of the first storing statement) and the whole attribute vocabulary of the package.  When a class stores a field the
# table does not know and lacks one it knows, and the pairing is unique (one of each, or a unique shape match), every
# `.unknown` attribute node of the package is renamed to `.missing` - provided the unknown name is new to the package's
# vocabulary (so it cannot be a library attribute such as `.values`), the missing name no longer occurs anywhere, and neither
# name occurs as a string constant (getattr / __slots__ / pickled keys would not follow).  A consistent package-wide renaming of
# an attribute that is only ever accessed by attribute syntax is an alpha-equivalent program.


def class_fields(cls_node):
    """field -> erased shape of the first statement of the class that stores `self.<field> = ...`"""
    out = {}
    for m in cls_node.body:
        if not isinstance(m, (ast.FunctionDef, ast.AsyncFunctionDef)) or not m.args.args:
            continue
        me = m.args.args[0].arg
        for st in ast.walk(m):
            if isinstance(st, (ast.Assign, ast.AugAssign, ast.AnnAssign)):
                tg = st.targets if isinstance(st, ast.Assign) else [st.target]
                for t in tg:
                    for x in (t.elts if isinstance(t, (ast.Tuple, ast.List)) else [t]):
                        if isinstance(x, ast.Attribute) and isinstance(x.value, ast.Name) and x.value.id == me and x.attr not in out:
                            txt = ast.unparse(st)
                            out[x.attr] = (m.name, txt.replace("." + x.attr, "._")[:200])
    return out


def attribute_vocabulary(trees):
    voc, strings = set(), set()
    for t in trees:
        for n in ast.walk(t):
            if isinstance(n, ast.Attribute):
                voc.add(n.attr)
            elif isinstance(n, ast.Constant) and isinstance(n.value, str) and n.value.isidentifier():
                strings.add(n.value)
    return voc, strings


def canonicalise_attributes(trees, table):
    """trees: {module name: ast.Module}; -> [(class, actual, canonical)] (renamed in place, package-wide)"""
    done = []
    if not table:
        return done
    voc0 = set(table.get("vocabulary", []))
    voc, strings = attribute_vocabulary(trees.values())
    pairs = {}
    for mod, tree in trees.items():
        ref = table.get("classes", {}).get(mod, {})
        for c in tree.body:
            if not isinstance(c, ast.ClassDef) or c.name not in ref:
                continue
            canon = ref[c.name]
            actual = class_fields(c)
            unknown = sorted(f for f in actual if f not in canon and f not in voc0)
            missing = sorted(f for f in canon if f not in actual and f not in voc)
            if not unknown or not missing:
                continue
            if len(unknown) == 1 and len(missing) == 1:
                cand = [(unknown[0], missing[0])]
            else:
                cand = []
                for u in unknown:
                    ms = [m for m in missing if tuple(canon[m]) == tuple(actual[u])]
                    if len(ms) == 1 and len([v for v in unknown if actual[v] == actual[u]]) == 1:
                        cand.append((u, ms[0]))
            for u, m in cand:
                if u in strings or m in strings or u in pairs or m in pairs.values():
                    continue
                pairs[u] = m
                done.append(("%s.%s" % (mod, c.name), u, m))
    if pairs:
        for tree in trees.values():
            apply_attribute_pairs(tree, pairs)
    return done


def apply_attribute_pairs(tree, pairs):
    for n in ast.walk(tree):
        if isinstance(n, ast.Attribute) and n.attr in pairs:
            n.attr = pairs[n.attr]
