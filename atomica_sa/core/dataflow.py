"""
Reaching definitions / def-use on top of the statement CFG (DESIGN 3.4).

A definition is (key, cfg node id).  ``key`` is the identifier for plain names, and the normalised
source text for attribute/subscript slots (``self.x``, ``d[k]``) so that slot-level rules (alias then
augment, cache coherence) can use the same machinery.  A store to a name kills every slot whose text
mentions that name (the slot now denotes a different location).
"""
import ast

from .cfg import CFG, ENTRY
from .loader import store_targets, names_in


def _walrus_targets(node):
    for n in ast.walk(node):
        if isinstance(n, ast.NamedExpr) and isinstance(n.target, ast.Name):
            yield n.target


def header_expr(kind, node):
    """The part of a compound statement that is evaluated at its CFG header node."""
    if kind == "test" and isinstance(node, (ast.If, ast.While)):
        return node.test
    if kind == "for":
        return node.iter
    if kind == "with":
        return node
    return None


def defs_of(kind, node):
    """Keys defined at a CFG node."""
    out = []
    if node is None:
        return out
    if kind == "stmt":
        for t in store_targets(node):
            out.append(ast.unparse(t))
        if isinstance(node, (ast.Import, ast.ImportFrom)):
            for a in node.names:
                out.append((a.asname or a.name).split(".")[0])
        for t in _walrus_targets(node):
            out.append(t.id)
    elif kind == "for":
        for t in store_targets(node):
            out.append(ast.unparse(t))
    elif kind == "with":
        for t in store_targets(node):
            out.append(ast.unparse(t))
    elif kind == "handler":
        if node.name:
            out.append(node.name)
    elif kind == "def":
        out.append(node.name)
    elif kind == "test":
        for t in _walrus_targets(node.test if hasattr(node, "test") else node):
            out.append(t.id)
    return out


def uses_of(kind, node):
    """Names read at a CFG node (only the part evaluated at that node)."""
    if node is None:
        return set()
    if kind == "stmt":
        used = set()
        for n in ast.walk(node):
            if isinstance(n, ast.Name) and isinstance(n.ctx, ast.Load):
                used.add(n.id)
        if isinstance(node, ast.AugAssign) and isinstance(node.target, ast.Name):
            used.add(node.target.id)
        return used
    if kind == "test":
        return {n.id for n in ast.walk(node.test) if isinstance(n, ast.Name)} if hasattr(node, "test") else set()
    if kind == "for":
        return {n.id for n in ast.walk(node.iter) if isinstance(n, ast.Name)}
    if kind == "with":
        s = set()
        for i in node.items:
            s |= {n.id for n in ast.walk(i.context_expr) if isinstance(n, ast.Name)}
        return s
    return set()


class ReachingDefs:
    def __init__(self, cfg: CFG, params=()):
        self.cfg = cfg
        g = cfg.g
        self.gen = {}
        self.keys = set()
        for i in g.nodes:
            kind = cfg.kind[i]
            ks = [] if (kind == "try" or kind.startswith("finally")) else defs_of(kind, cfg.ast[i])
            self.gen[i] = set(ks)
            self.keys |= set(ks)
        self.params = set(params)
        # definitions: (key, node); parameters are defined at ENTRY; every other key is "undefined at entry": (key, None)
        self.IN = {i: set() for i in g.nodes}
        self.OUT = {i: set() for i in g.nodes}
        entry_defs = {(p, ENTRY) for p in self.params} | {(k, None) for k in self.keys if k not in self.params}
        self.OUT[ENTRY] = set(entry_defs)
        work = [n for n in g.nodes if n != ENTRY]
        inwork = set(work)
        while work:
            n = work.pop()
            inwork.discard(n)
            inn = set()
            for p in g.predecessors(n):
                # an exceptional edge leaves a statement *before* it completed: its own definitions have not happened
                if g[p][n]["labels"] == {"exc"}:
                    inn |= self.IN[p]
                else:
                    inn |= self.OUT[p]
            self.IN[n] = inn
            new_out = self._transfer(n, inn)
            if new_out != self.OUT[n] or getattr(self, "_last_in", {}).get(n) != inn:
                if not hasattr(self, "_last_in"):
                    self._last_in = {}
                self._last_in[n] = set(inn)
                self.OUT[n] = new_out
                for s in g.successors(n):
                    if s not in inwork and s != ENTRY:
                        work.append(s)
                        inwork.add(s)

    def _kills(self, key_defined, key_existing):
        if key_defined == key_existing:
            return True
        # store to a plain name invalidates slots that mention it
        if key_defined.isidentifier() and not key_existing.isidentifier():
            import re

            return re.search(r"\b%s\b" % re.escape(key_defined), key_existing) is not None
        return False

    def _transfer(self, n, inn):
        gen = self.gen[n]
        if not gen:
            return inn
        out = {(k, d) for (k, d) in inn if not any(self._kills(g, k) for g in gen)}
        out |= {(k, n) for k in gen}
        return out

    def reaching(self, node_id, key):
        """Definitions of ``key`` that reach the entry of CFG node ``node_id``: set of node ids (None = undefined at entry, ENTRY = parameter)."""
        return {d for (k, d) in self.IN[node_id] if k == key}

    def reaching_at_stmt(self, stmt, key):
        out = set()
        for i in self.cfg.ids(stmt):
            out |= self.reaching(i, key)
        return out

    def def_stmt(self, d):
        return self.cfg.ast.get(d) if d not in (None, ENTRY) else None


def assigned_value(stmt, name):
    """Value expression assigned to plain name ``name`` by ``stmt`` (None if not a simple binding)."""
    if isinstance(stmt, ast.Assign):
        for t in stmt.targets:
            if isinstance(t, ast.Name) and t.id == name:
                return stmt.value
            if isinstance(t, (ast.Tuple, ast.List)) and isinstance(stmt.value, (ast.Tuple, ast.List)) and len(t.elts) == len(stmt.value.elts):
                for te, ve in zip(t.elts, stmt.value.elts):
                    if isinstance(te, ast.Name) and te.id == name:
                        return ve
    if isinstance(stmt, ast.AnnAssign) and isinstance(stmt.target, ast.Name) and stmt.target.id == name:
        return stmt.value
    return None
