"""
Meaning-preserving normalisation of the in-memory syntax tree, applied by the loader before any rule runs (engine 3.15).

The rules recognise idioms by shape; a handful of rewrites that cannot change what the code computes are therefore undone
first, so that either spelling is analysed as the same program:

  N1  if not C: A else: B      ->  if C: B else: A               (else present, not an elif chain)
  N2  not (a in b)             ->  a not in b     (likewise is / == and their negated forms; never for < <= > >=,
                                                    where `not (a > b)` differs from `a <= b` on NaN)
  N3  <constant> < x           ->  x > <constant>  (constants on the right; all six comparison operators)
  N4  t = E; return t          ->  return E        (t assigned immediately before, used nowhere else)

Each is exact in Python's semantics (operands are evaluated in the same order except N3 / N4 on side-effect-free
constants / a fresh temporary).  Line numbers of the surviving nodes are kept, so reports still point at the source.
"""
import ast

_NEG = {ast.In: ast.NotIn, ast.NotIn: ast.In, ast.Is: ast.IsNot, ast.IsNot: ast.Is, ast.Eq: ast.NotEq, ast.NotEq: ast.Eq}
_FLIP = {ast.Lt: ast.Gt, ast.Gt: ast.Lt, ast.LtE: ast.GtE, ast.GtE: ast.LtE, ast.Eq: ast.Eq, ast.NotEq: ast.NotEq}


def _is_const(e):
    if isinstance(e, ast.Constant) and not isinstance(e.value, (str, bytes)):
        return True
    return isinstance(e, ast.UnaryOp) and isinstance(e.op, ast.USub) and isinstance(e.operand, ast.Constant)


class _Expr(ast.NodeTransformer):
    def __init__(self):
        self.count = {"N2": 0, "N3": 0}

    def visit_UnaryOp(self, node):
        self.generic_visit(node)
        if isinstance(node.op, ast.Not) and isinstance(node.operand, ast.Compare) and len(node.operand.ops) == 1 and type(node.operand.ops[0]) in _NEG:
            c = node.operand
            self.count["N2"] += 1
            return ast.copy_location(ast.Compare(left=c.left, ops=[_NEG[type(c.ops[0])]()], comparators=c.comparators), node)
        return node

    def visit_Compare(self, node):
        self.generic_visit(node)
        if len(node.ops) == 1 and type(node.ops[0]) in _FLIP and _is_const(node.left) and not _is_const(node.comparators[0]):
            self.count["N3"] += 1
            return ast.copy_location(ast.Compare(left=node.comparators[0], ops=[_FLIP[type(node.ops[0])]()], comparators=[node.left]), node)
        return node


def _blocks(tree):
    for n in ast.walk(tree):
        for f in ("body", "orelse", "finalbody"):
            b = getattr(n, f, None)
            if isinstance(b, list) and b and isinstance(b[0], ast.stmt):
                yield n, f, b
        if isinstance(n, ast.Try):
            for h in n.handlers:
                yield h, "body", h.body


def normalise(tree):
    """-> {rewrite: count}"""
    ex = _Expr()
    ex.visit(tree)
    counts = dict(ex.count, N1=0, N4=0)
    for n in ast.walk(tree):
        if isinstance(n, ast.If) and n.orelse and not (len(n.orelse) == 1 and isinstance(n.orelse[0], ast.If)) and isinstance(n.test, ast.UnaryOp) and isinstance(n.test.op, ast.Not):
            n.test = n.test.operand
            n.body, n.orelse = n.orelse, n.body
            counts["N1"] += 1
    for fn in [x for x in ast.walk(tree) if isinstance(x, (ast.FunctionDef, ast.AsyncFunctionDef))]:
        uses = {}
        for x in ast.walk(fn):
            if isinstance(x, ast.Name):
                uses[x.id] = uses.get(x.id, 0) + 1
        for owner, field, body in list(_blocks(fn)):
            for i in range(1, len(body)):
                r, a = body[i], body[i - 1]
                if isinstance(r, ast.Return) and isinstance(r.value, ast.Name) and isinstance(a, ast.Assign) and len(a.targets) == 1 and isinstance(a.targets[0], ast.Name) and a.targets[0].id == r.value.id and uses.get(r.value.id) == 2:
                    r.value = a.value
                    r.lineno, r.col_offset = a.lineno, a.col_offset
                    body[i - 1 : i + 1] = [r]
                    counts["N4"] += 1
                    break
    ast.fix_missing_locations(tree)
    return counts
