"""
Meaning-preserving normalisation of the in-memory syntax tree, applied by the loader before any rule runs (engine 3.15).

The rules recognise idioms by shape; a handful of rewrites that cannot change what the code computes are therefore undone
first, so that either spelling is analysed as the same program:

  N1  if not C: A else: B      ->  if C: B else: A               (else present, not an elif chain)
  N2  not (a in b)             ->  a not in b     (likewise is / == and their negated forms; never for < <= > >=,
                                                    where `not (a > b)` differs from `a <= b` on NaN)
  N3  <constant> < x           ->  x > <constant>  (constants on the right; all six comparison operators)
  N4  t = E; return t          ->  return E        (t assigned immediately before, used nowhere else)

Each is exact in Python's semantics (operands are evaluated in the same order except N3 / N4 on side-effect-free
constants / a fresh temporary).  Line numbers of the surviving nodes are kept, so reports still point at the source.
"""
import ast

_NEG = {ast.In: ast.NotIn, ast.NotIn: ast.In, ast.Is: ast.IsNot, ast.IsNot: ast.Is, ast.Eq: ast.NotEq, ast.NotEq: ast.Eq}
_FLIP = {ast.Lt: ast.Gt, ast.Gt: ast.Lt, ast.LtE: ast.GtE, ast.GtE: ast.LtE, ast.Eq: ast.Eq, ast.NotEq: ast.NotEq}


def _is_const(e):
    if isinstance(e, ast.Constant) and not isinstance(e.value, (str, bytes)):
        return True
    return isinstance(e, ast.UnaryOp) and isinstance(e.op, ast.USub) and isinstance(e.operand, ast.Constant)


class _Expr(ast.NodeTransformer):
    def __init__(self):
        self.count = {"N2": 0, "N3": 0}

    def visit_UnaryOp(self, node):
        self.generic_visit(node)
        if isinstance(node.op, ast.Not) and isinstance(node.operand, ast.Compare) and len(node.operand.ops) == 1 and type(node.operand.ops[0]) in _NEG:
            c = node.operand
            self.count["N2"] += 1
            return ast.copy_location(ast.Compare(left=c.left, ops=[_NEG[type(c.ops[0])]()], comparators=c.comparators), node)
        return node

    def visit_Compare(self, node):
        self.generic_visit(node)
        if len(node.ops) == 1 and type(node.ops[0]) in _FLIP and _is_const(node.left) and not _is_const(node.comparators[0]):
            self.count["N3"] += 1
            return ast.copy_location(ast.Compare(left=node.comparators[0], ops=[_FLIP[type(node.ops[0])]()], comparators=[node.left]), node)
        return node


def _blocks(tree):
    for n in ast.walk(tree):
        for f in ("body", "orelse", "finalbody"):
            b = getattr(n, f, None)
            if isinstance(b, list) and b and isinstance(b[0], ast.stmt):
                yield n, f, b
        if isinstance(n, ast.Try):
            for h in n.handlers:
                yield h, "body", h.body


def normalise(tree):
    """-> {rewrite: count}"""
    n7 = drop_pass(tree)
    ex = _Expr()
    ex.visit(tree)
    counts = dict(ex.count, N1=0, N4=0, N7=n7)
    for n in ast.walk(tree):
        if isinstance(n, ast.If) and n.orelse and not (len(n.orelse) == 1 and isinstance(n.orelse[0], ast.If)) and isinstance(n.test, ast.UnaryOp) and isinstance(n.test.op, ast.Not):
            n.test = n.test.operand
            n.body, n.orelse = n.orelse, n.body
            counts["N1"] += 1
    for fn in [x for x in ast.walk(tree) if isinstance(x, (ast.FunctionDef, ast.AsyncFunctionDef))]:
        uses = {}
        for x in ast.walk(fn):
            if isinstance(x, ast.Name):
                uses[x.id] = uses.get(x.id, 0) + 1
        for owner, field, body in list(_blocks(fn)):
            for i in range(1, len(body)):
                r, a = body[i], body[i - 1]
                if isinstance(r, ast.Return) and isinstance(r.value, ast.Name) and isinstance(a, ast.Assign) and len(a.targets) == 1 and isinstance(a.targets[0], ast.Name) and a.targets[0].id == r.value.id and uses.get(r.value.id) == 2:
                    r.value = a.value
                    r.lineno, r.col_offset = a.lineno, a.col_offset
                    body[i - 1 : i + 1] = [r]
                    counts["N4"] += 1
                    break
    ast.fix_missing_locations(tree)
    return counts


# ---------------------------------------------------------------------------------------------------------------------
# N5 / N6 / N7: orientation relative to the reviewed tree (rules/tables/comparisons.json, frozen by tools/gen_locals_table.py)
#
#   N5  b > a            ->  a < b          when the function of the reviewed tree contains `a < b` and not `b > a`
#   N6  if C: A else: B  ->  if not-C: B else: A   when the reviewed function tests `not-C` (and not `C`) at an if with an else
#   N7  a redundant `pass` in a block that has other statements is dropped (so `else: pass; if ..` is an `elif` again)
#
# Flipping a comparison and swapping the branches of an if/else under the negated test are exact, so - as for the renaming of
# locals - the table only decides which of two equivalent spellings the rules get to see.

_OPTXT = {ast.Lt: "<", ast.Gt: ">", ast.LtE: "<=", ast.GtE: ">=", ast.Eq: "==", ast.NotEq: "!=", ast.In: "in", ast.NotIn: "not in", ast.Is: "is", ast.IsNot: "is not"}


def cmp_key(n):
    return "%s|%s|%s" % (ast.unparse(n.left), _OPTXT.get(type(n.ops[0]), "?"), ast.unparse(n.comparators[0]))


def negated(test):
    """AST of the exact negation of ``test`` in the spelling the normal form uses"""
    if isinstance(test, ast.UnaryOp) and isinstance(test.op, ast.Not):
        return test.operand
    if isinstance(test, ast.Compare) and len(test.ops) == 1 and type(test.ops[0]) in _NEG:
        return ast.copy_location(ast.Compare(left=test.left, ops=[_NEG[type(test.ops[0])]()], comparators=test.comparators), test)
    return ast.copy_location(ast.UnaryOp(op=ast.Not(), operand=test), test)


def functions_of(tree):
    for n in tree.body:
        if isinstance(n, (ast.FunctionDef, ast.AsyncFunctionDef)):
            yield n.name, n
        elif isinstance(n, ast.ClassDef):
            for m in n.body:
                if isinstance(m, (ast.FunctionDef, ast.AsyncFunctionDef)):
                    kind = ""
                    for d in m.decorator_list:
                        if isinstance(d, ast.Attribute) and d.attr in ("setter", "deleter"):
                            kind = "@" + d.attr
                    yield "%s.%s%s" % (n.name, m.name, kind), m


def shapes_of(fn):
    """-> (comparison keys, if/else test texts) of one function (nested functions included)"""
    cmps, tests = set(), set()
    for n in ast.walk(fn):
        if isinstance(n, ast.Compare) and len(n.ops) == 1 and type(n.ops[0]) in _FLIP:
            cmps.add(cmp_key(n))
        if isinstance(n, ast.If) and n.orelse and not (len(n.orelse) == 1 and isinstance(n.orelse[0], ast.If)):
            tests.add(ast.unparse(n.test))
    return sorted(cmps), sorted(tests)


def drop_pass(tree):
    c = 0
    for n in ast.walk(tree):
        for f in ("body", "orelse", "finalbody"):
            b = getattr(n, f, None)
            if isinstance(b, list) and len(b) > 1 and any(isinstance(s, ast.Pass) for s in b):
                keep = [s for s in b if not isinstance(s, ast.Pass)]
                if keep:
                    setattr(n, f, keep)
                    c += len(b) - len(keep)
    return c


def orient(tree, table):
    """-> {N5: n, N6: n}; ``table`` = {qualname: {"cmp": [...], "tests": [...]}} for this module"""
    counts = {"N5": 0, "N6": 0}
    if not table:
        return counts
    for qn, fn in functions_of(tree):
        ref = table.get(qn)
        if not ref:
            continue
        cmps, tests = set(ref["cmp"]), set(ref["tests"])
        for n in ast.walk(fn):
            if isinstance(n, ast.Compare) and len(n.ops) == 1 and type(n.ops[0]) in _FLIP:
                if cmp_key(n) not in cmps:
                    l, r = n.left, n.comparators[0]
                    flipped = "%s|%s|%s" % (ast.unparse(r), _OPTXT[_FLIP[type(n.ops[0])]], ast.unparse(l))
                    if flipped in cmps:
                        n.left, n.comparators, n.ops = r, [l], [_FLIP[type(n.ops[0])]()]
                        counts["N5"] += 1
        for n in ast.walk(fn):
            if isinstance(n, ast.If) and n.orelse and not (len(n.orelse) == 1 and isinstance(n.orelse[0], ast.If)):
                if ast.unparse(n.test) not in tests:
                    neg = negated(n.test)
                    if ast.unparse(neg) in tests:
                        n.test = neg
                        n.body, n.orelse = n.orelse, n.body
                        counts["N6"] += 1
    ast.fix_missing_locations(tree)
    return counts
