"""Small AST query helpers shared by the rules."""
import ast

from .loader import own_nodes, store_targets, enclosing_stmt

MUTATORS = {"append", "extend", "insert", "remove", "pop", "popitem", "clear", "update", "sort", "reverse", "fill", "setdefault", "add", "discard", "resize", "put", "itemset", "partition"}


def stores(func_node):
    """
    Yield (stmt, target_expr, kind, value) for every store performed directly in the function body:
    kind in 'assign', 'aug', 'del', 'for', 'with', 'mut:<method>' (call of a known in-place mutator on target_expr).
    """
    for n in own_nodes(func_node):
        if isinstance(n, ast.Assign):
            for t in store_targets(n):
                yield n, t, "assign", n.value
        elif isinstance(n, ast.AugAssign):
            yield n, n.target, "aug", n.value
        elif isinstance(n, ast.AnnAssign) and n.value is not None:
            yield n, n.target, "assign", n.value
        elif isinstance(n, ast.Delete):
            for t in store_targets(n):
                yield n, t, "del", None
        elif isinstance(n, (ast.For, ast.AsyncFor)):
            for t in store_targets(n):
                yield n, t, "for", n.iter
        elif isinstance(n, ast.Call) and isinstance(n.func, ast.Attribute) and n.func.attr in MUTATORS:
            yield enclosing_stmt(n) or n, n.func.value, "mut:" + n.func.attr, n
        elif isinstance(n, ast.Call):
            # numpy out= forms
            for kw in n.keywords:
                if kw.arg == "out" and not (isinstance(kw.value, ast.Call)):
                    yield enclosing_stmt(n) or n, kw.value, "mut:out=", n


def path_parts(expr):
    """
    Decompose an access path into parts, outermost last:
    self.vals[ti] -> [('name','self'), ('attr','vals'), ('sub', <slice node>)]
    Returns None if the expression contains anything else (calls etc.).
    """
    parts = []
    while True:
        if isinstance(expr, ast.Attribute):
            parts.append(("attr", expr.attr))
            expr = expr.value
        elif isinstance(expr, ast.Subscript):
            parts.append(("sub", expr.slice))
            expr = expr.value
        elif isinstance(expr, ast.Name):
            parts.append(("name", expr.id))
            break
        else:
            return None
    return list(reversed(parts))


def strip_subs(expr):
    while isinstance(expr, ast.Subscript):
        expr = expr.value
    return expr


def attr_in_path(expr, names):
    """First Attribute node along the access path whose attr is in ``names`` (searching from the outside in)."""
    e = expr
    while isinstance(e, (ast.Attribute, ast.Subscript)):
        if isinstance(e, ast.Attribute) and e.attr in names:
            return e
        e = e.value
    return None


def is_const(e, value):
    return isinstance(e, ast.Constant) and e.value == value and type(e.value) in (type(value), int, float)


def is_name(e, name):
    return isinstance(e, ast.Name) and e.id == name


def method_calls(node, method, nested=False):
    """Call nodes ``<anything>.method(...)`` inside node."""
    it = ast.walk(node) if nested else own_nodes(node)
    for n in it:
        if isinstance(n, ast.Call) and isinstance(n.func, ast.Attribute) and n.func.attr == method:
            yield n


def name_calls(node, name):
    for n in own_nodes(node):
        if isinstance(n, ast.Call) and isinstance(n.func, ast.Name) and n.func.id == name:
            yield n


def contains(node, pred):
    return any(pred(n) for n in ast.walk(node))


def uses_name(node, name):
    return any(isinstance(n, ast.Name) and n.id == name for n in ast.walk(node))


def txt(node):
    return ast.unparse(node)


def kwarg(call, name, pos=None):
    for kw in call.keywords:
        if kw.arg == name:
            return kw.value
    if pos is not None and len(call.args) > pos:
        return call.args[pos]
    return None


def loops_over(func_node, iter_pred):
    """For-loops (own) whose iter expression satisfies iter_pred."""
    for n in own_nodes(func_node):
        if isinstance(n, ast.For) and iter_pred(n.iter):
            yield n


def in_loop_body(node, loop):
    from .loader import ancestors

    prev = node
    for a in ancestors(node):
        if a is loop:
            return any(prev is s for s in loop.body)
        prev = a
    return False


def stmts_in_order(func_node):
    """All own statements in source order."""
    out = [n for n in own_nodes(func_node) if isinstance(n, ast.stmt)]
    out.sort(key=lambda s: (s.lineno, s.col_offset))
    return out
