"""
Finite-ordering evaluator (DESIGN 3.7).

A predicate that touches a value only through comparisons against one threshold splits the real line into the
order regions lt / eq / gt.  ``truth(test, var, const)`` returns the set of regions in which the test holds,
or raises Unrecognised if the test is not such a comparison.  Boolean combinations are evaluated region-wise;
conjuncts that do not mention ``var`` are returned separately as *selectors*.
"""
import ast

ALL = frozenset({"lt", "eq", "gt"})


class Unrecognised(Exception):
    pass


class OtherThreshold(Exception):
    def __init__(self, value, node):
        super().__init__("threshold %r" % (value,))
        self.value = value
        self.node = node


_OPS = {
    ast.Lt: {"lt"},
    ast.LtE: {"lt", "eq"},
    ast.Gt: {"gt"},
    ast.GtE: {"gt", "eq"},
    ast.Eq: {"eq"},
    ast.NotEq: {"lt", "gt"},
}
_MIRROR = {ast.Lt: ast.Gt, ast.LtE: ast.GtE, ast.Gt: ast.Lt, ast.GtE: ast.LtE, ast.Eq: ast.Eq, ast.NotEq: ast.NotEq}


def mentions(e, var):
    return any(isinstance(n, ast.Name) and n.id == var for n in ast.walk(e)) if isinstance(var, str) and var.isidentifier() else (var in ast.unparse(e))


def _is_var(e, var):
    return ast.unparse(e) == var


def _const(e):
    if isinstance(e, ast.Constant) and isinstance(e.value, (int, float)) and not isinstance(e.value, bool):
        return e.value
    return None


def truth(test, var, const):
    """Regions (subset of lt/eq/gt relative to ``const``) where ``test`` is true.  ``test`` must only mention ``var`` via comparisons with ``const``."""
    if isinstance(test, ast.UnaryOp) and isinstance(test.op, ast.Not):
        return ALL - truth(test.operand, var, const)
    if isinstance(test, ast.BoolOp):
        parts = [truth(v, var, const) for v in test.values]
        out = parts[0]
        for p in parts[1:]:
            out = (out & p) if isinstance(test.op, ast.And) else (out | p)
        return frozenset(out)
    if isinstance(test, ast.Compare) and len(test.ops) == 1:
        l, op, r = test.left, type(test.ops[0]), test.comparators[0]
        if _is_var(l, var) and _const(r) is not None:
            c = _const(r)
        elif _is_var(r, var) and _const(l) is not None:
            c = _const(l)
            op = _MIRROR.get(op)
        else:
            raise Unrecognised(ast.unparse(test))
        if op not in _OPS:
            raise Unrecognised(ast.unparse(test))
        if c != const:
            raise OtherThreshold(c, test)
        return frozenset(_OPS[op])
    raise Unrecognised(ast.unparse(test))


def split_conjuncts(test):
    if isinstance(test, ast.BoolOp) and isinstance(test.op, ast.And):
        out = []
        for v in test.values:
            out += split_conjuncts(v)
        return out
    return [test]


def guard_regions(guards, var, const, flag_resolver=None):
    """
    Intersect the regions implied by a list of (test, polarity) guards.  Conjuncts that do not mention ``var`` are
    returned as selectors [(text, polarity)].  A bare Name guard is resolved through ``flag_resolver(name) -> regions|None``.
    """
    regions = ALL
    selectors = []
    for test, pol in guards:
        conj = split_conjuncts(test) if pol else [test]
        for c in conj:
            if isinstance(c, ast.Name) and flag_resolver is not None:
                r = flag_resolver(c.id)
                if r is not None:
                    regions = regions & (r if pol else ALL - r)
                    continue
            if isinstance(c, ast.UnaryOp) and isinstance(c.op, ast.Not) and isinstance(c.operand, ast.Name) and flag_resolver is not None:
                r = flag_resolver(c.operand.id)
                if r is not None:
                    regions = regions & ((ALL - r) if pol else r)
                    continue
            if mentions(c, var):
                r = truth(c, var, const)
                regions = regions & (r if pol else ALL - r)
            else:
                selectors.append((ast.unparse(c), pol))
    return frozenset(regions), selectors


def two_threshold_truth(test, var, lo, hi):
    """
    Truth table over the five regions  t<lo, t=lo, lo<t<hi, t=hi, t>hi  for a predicate that compares ``var`` (text)
    with the two threshold expressions ``lo`` and ``hi`` (texts).  Returns frozenset of region names where the test holds.
    """
    R5 = ("<lo", "=lo", "mid", "=hi", ">hi")
    pos = {"<lo": 0, "=lo": 1, "mid": 2, "=hi": 3, ">hi": 4}
    thr = {lo: 1, hi: 3}

    def cmp_truth(op, c):
        # region index i relative to threshold index c
        out = set()
        for r, i in pos.items():
            rel = (i > c) - (i < c)
            if (op is ast.Lt and rel < 0) or (op is ast.LtE and rel <= 0) or (op is ast.Gt and rel > 0) or (op is ast.GtE and rel >= 0) or (op is ast.Eq and rel == 0) or (op is ast.NotEq and rel != 0):
                out.add(r)
        return frozenset(out)

    def ev(t):
        if isinstance(t, ast.UnaryOp) and isinstance(t.op, ast.Not):
            return frozenset(R5) - ev(t.operand)
        if isinstance(t, ast.BoolOp):
            parts = [ev(v) for v in t.values]
            out = parts[0]
            for p in parts[1:]:
                out = (out & p) if isinstance(t.op, ast.And) else (out | p)
            return frozenset(out)
        if isinstance(t, ast.BinOp) and isinstance(t.op, (ast.BitOr, ast.BitAnd)):
            a, b = ev(t.left), ev(t.right)
            return frozenset(a | b) if isinstance(t.op, ast.BitOr) else frozenset(a & b)
        if isinstance(t, ast.Compare):
            # chained comparisons: a <= x <= b
            items = [t.left] + list(t.comparators)
            out = frozenset(R5)
            for (l, op, r) in zip(items, t.ops, items[1:]):
                lt, rt = ast.unparse(l), ast.unparse(r)
                o = type(op)
                if lt == var and rt in thr:
                    out = out & cmp_truth(o, thr[rt])
                elif rt == var and lt in thr:
                    out = out & cmp_truth(_MIRROR[o], thr[lt])
                else:
                    raise Unrecognised(ast.unparse(t))
            return out
        raise Unrecognised(ast.unparse(t))

    return ev(test)
