"""
Statement-level control flow graph, dominators, path queries (DESIGN 3.4, Appendix E).

One node per simple statement; compound statements contribute a header node (``if``/``while`` test,
``for`` header, ``with`` header, ``except`` entry).  ``finally`` bodies are cloned per mode (normal,
exceptional, jump) so that flow through them is path-exact.  Two virtual exits, EXIT (normal return)
and EXC (an exception leaves the function).

``raise_model``:
  'explicit' - only ``raise`` and ``assert`` raise, plus every statement inside a ``try`` body;
  'calls'    - additionally every statement containing a call may raise (used by the restore-on-all-exits rule).
"""
import ast
import builtins
import networkx as nx

from .loader import AnalysisError

ENTRY, EXIT, EXC = 0, 1, 2


def _handler_types(h):
    if h.type is None:
        return []
    if isinstance(h.type, ast.Tuple):
        return [ast.unparse(e) for e in h.type.elts]
    return [ast.unparse(h.type)]


def _builtin_exc(name):
    obj = getattr(builtins, name, None)
    return obj if isinstance(obj, type) and issubclass(obj, BaseException) else None


class ExcHierarchy:
    """Subclass relation between exception class names (repo classes + builtins)."""

    def __init__(self, repo=None, module=None):
        self.repo = repo
        self.module = module

    def bases_of(self, name):
        """Return list of ancestor names (including itself); None if unknown."""
        short = name.split(".")[-1]
        b = _builtin_exc(short)
        if b is not None:
            return [c.__name__ for c in b.__mro__]
        if self.repo is not None:
            ci = None
            if self.module is not None:
                ci = self.repo.resolve_class_name(self.module, name)
            if ci is None:
                cands = [c for c in self.repo.all_classes() if c.name == short]
                if len(cands) == 1:
                    ci = cands[0]
            if ci is not None:
                out = []
                for c in self.repo.mro(ci):
                    out.append(c.name)
                    for e in c.external_bases:
                        eb = _builtin_exc(e.split(".")[-1])
                        if eb is not None:
                            out += [k.__name__ for k in eb.__mro__]
                        else:
                            return out + ["?"]
                return out
        return None

    def catches(self, handler_types, exc_name):
        """True / False / None (unknown) - does ``except <handler_types>`` catch an exception of class exc_name."""
        if not handler_types:
            return True
        hs = [h.split(".")[-1] for h in handler_types]
        if "BaseException" in hs or "Exception" in hs:
            # everything raised by this repo derives from Exception
            return True
        if exc_name is None:
            return None
        anc = self.bases_of(exc_name)
        if anc is None:
            return None
        if any(h in anc for h in hs):
            return True
        if "?" in anc:
            return None
        return False


class _Frame:
    def __init__(self, kind, **kw):
        self.kind = kind
        self.__dict__.update(kw)


class CFG:
    def __init__(self, func_node, repo=None, module=None, raise_model="explicit"):
        self.func = func_node
        self.g = nx.DiGraph()
        self.kind = {ENTRY: "entry", EXIT: "exit", EXC: "exc"}
        self.ast = {ENTRY: None, EXIT: None, EXC: None}
        self.g.add_nodes_from([ENTRY, EXIT, EXC])
        self._n = 3
        self._by_ast = {}
        self.hier = ExcHierarchy(repo, module)
        self.raise_model = raise_model
        self._fin_memo = {}
        body = func_node.body if hasattr(func_node, "body") else [func_node]
        outs = self._block(body, [(ENTRY, None)], [])
        for p in outs:
            self._edge(p, EXIT)
        self._idom = None
        self._pdom_cache = {}

    # ------------------------------------------------------------------ construction
    def _new(self, kind, node):
        i = self._n
        self._n += 1
        self.g.add_node(i)
        self.kind[i] = kind
        self.ast[i] = node
        if node is not None:
            self._by_ast.setdefault(id(node), []).append(i)
        return i

    def _edge(self, pred, dst, label=None):
        src, lab = pred
        lab = label if label is not None else lab
        if self.g.has_edge(src, dst):
            # keep all labels
            self.g[src][dst]["labels"].add(lab)
        else:
            self.g.add_edge(src, dst, labels={lab})

    def _connect(self, preds, dst):
        for p in preds:
            self._edge(p, dst)

    def _block(self, stmts, preds, frames):
        for s in stmts:
            if not preds:
                # unreachable code: still build it so that its nodes exist, from no predecessor
                pass
            preds = self._stmt(s, preds, frames)
        return preds

    def _may_raise(self, stmt, frames):
        if any(f.kind in ("handlers", "finally") for f in frames):
            return True
        if self.raise_model == "calls":
            for n in ast.walk(stmt):
                if isinstance(n, ast.Call):
                    return True
        return False

    def _stmt(self, s, preds, frames):
        if isinstance(s, ast.If):
            t = self._new("test", s)
            self._connect(preds, t)
            if self._may_raise_expr(s.test, frames):
                self._raise(t, frames, None)
            outs = self._block(s.body, [(t, "true")], frames)
            if s.orelse:
                outs = outs + self._block(s.orelse, [(t, "false")], frames)
            else:
                outs = outs + [(t, "false")]
            return outs
        if isinstance(s, (ast.For, ast.AsyncFor)):
            h = self._new("for", s)
            self._connect(preds, h)
            if self._may_raise_expr(s.iter, frames):
                self._raise(h, frames, None)
            lf = _Frame("loop", head=h, breaks=[])
            body_out = self._block(s.body, [(h, "iter")], frames + [lf])
            self._connect(body_out, h)
            outs = self._block(s.orelse, [(h, "done")], frames) if s.orelse else [(h, "done")]
            return outs + lf.breaks
        if isinstance(s, ast.While):
            t = self._new("test", s)
            self._connect(preds, t)
            if self._may_raise_expr(s.test, frames):
                self._raise(t, frames, None)
            lf = _Frame("loop", head=t, breaks=[])
            body_out = self._block(s.body, [(t, "true")], frames + [lf])
            self._connect(body_out, t)
            const_true = isinstance(s.test, ast.Constant) and bool(s.test.value)
            outs = []
            if not const_true:
                outs = self._block(s.orelse, [(t, "false")], frames) if s.orelse else [(t, "false")]
            return outs + lf.breaks
        if isinstance(s, (ast.With, ast.AsyncWith)):
            w = self._new("with", s)
            self._connect(preds, w)
            if self._may_raise(s, frames):
                self._raise(w, frames, None)
            return self._block(s.body, [(w, None)], frames)
        if isinstance(s, ast.Try) or type(s).__name__ == "TryStar":
            return self._try(s, preds, frames)
        if isinstance(s, ast.Match):
            m = self._new("test", s)
            self._connect(preds, m)
            outs = [(m, "nomatch")]
            for case in s.cases:
                outs += self._block(case.body, [(m, "case")], frames)
            return outs
        if isinstance(s, (ast.FunctionDef, ast.AsyncFunctionDef, ast.ClassDef)):
            n = self._new("def", s)
            self._connect(preds, n)
            return [(n, None)]
        # simple statements
        n = self._new("stmt", s)
        self._connect(preds, n)
        if isinstance(s, ast.Return):
            if self._may_raise(s, frames) and s.value is not None and any(isinstance(x, ast.Call) for x in ast.walk(s.value)):
                self._raise(n, frames, None)
            self._jump(n, frames, "return")
            return []
        if isinstance(s, ast.Raise):
            exc_name = None
            if s.exc is not None:
                e = s.exc
                if isinstance(e, ast.Call):
                    e = e.func
                try:
                    exc_name = ast.unparse(e)
                except Exception:
                    exc_name = None
                if exc_name is not None and self.hier.bases_of(exc_name) is None:
                    exc_name = None
            else:
                exc_name = None  # bare re-raise: type unknown
            self._raise(n, frames, exc_name, definite=True)
            return []
        if isinstance(s, ast.Break):
            self._jump(n, frames, "break")
            return []
        if isinstance(s, ast.Continue):
            self._jump(n, frames, "continue")
            return []
        if isinstance(s, ast.Assert):
            self._raise(n, frames, "AssertionError")
            return [(n, None)]
        if self._may_raise(s, frames):
            self._raise(n, frames, None)
        return [(n, None)]

    def _may_raise_expr(self, expr, frames):
        if any(f.kind in ("handlers", "finally") for f in frames):
            return True
        if self.raise_model == "calls":
            return any(isinstance(n, ast.Call) for n in ast.walk(expr))
        return False

    def _try(self, s, preds, frames):
        t = self._new("try", s)
        self._connect(preds, t)
        has_fin = bool(s.finalbody)
        fin_frame = _Frame("finally", stmt=s, outer=frames) if has_fin else None
        base = frames + ([fin_frame] if has_fin else [])
        hframe = None
        handler_nodes = []
        if s.handlers:
            for h in s.handlers:
                hid = self._new("handler", h)
                handler_nodes.append((hid, _handler_types(h), h))
            hframe = _Frame("handlers", handlers=[(hid, types) for hid, types, _ in handler_nodes], stmt=s)
        body_frames = base + ([hframe] if hframe else [])
        outs = self._block(s.body, [(t, None)], body_frames)
        if s.orelse:
            outs = self._block(s.orelse, outs, base)
        for hid, types, h in handler_nodes:
            outs = outs + self._block(h.body, [(hid, None)], base)
        if has_fin:
            outs = self._finally_clone(s, outs, frames, "normal")
        return outs

    def _finally_clone(self, s, preds, outer_frames, mode):
        """Build one copy of ``s.finalbody`` entered from ``preds``; returns its fall-through preds."""
        f = self._new("finally", s)
        self.kind[f] = "finally:" + mode
        self._connect(preds, f)
        return self._block(s.finalbody, [(f, None)], outer_frames)

    def _raise(self, src, frames, exc_name, definite=False):
        """Add exceptional edges from node ``src`` for an exception of class ``exc_name`` (None = any)."""
        i = len(frames) - 1
        while i >= 0:
            fr = frames[i]
            if fr.kind == "handlers":
                for hid, types in fr.handlers:
                    c = self.hier.catches(types, exc_name)
                    if c is True:
                        self._edge((src, "exc"), hid)
                        if exc_name is not None or not types or any(t.split(".")[-1] in ("Exception", "BaseException") for t in types):
                            return
                    elif c is None:
                        self._edge((src, "exc"), hid)
            elif fr.kind == "finally":
                key = (id(fr.stmt), "exc")
                if key not in self._fin_memo:
                    f = self._new("finally", fr.stmt)
                    self.kind[f] = "finally:exc"
                    self._fin_memo[key] = f
                    outs = self._block(fr.stmt.finalbody, [(f, None)], fr.outer)
                    for p in outs:
                        self._raise(p[0], fr.outer, None)
                self._edge((src, "exc"), self._fin_memo[key])
                return
            i -= 1
        self._edge((src, "exc"), EXC)

    def _jump(self, src, frames, what):
        """return / break / continue from ``src`` through any enclosing finally blocks."""
        preds = [(src, what)]
        i = len(frames) - 1
        while i >= 0:
            fr = frames[i]
            if fr.kind == "finally":
                preds = self._finally_clone(fr.stmt, preds, fr.outer, what)
            elif fr.kind == "loop" and what in ("break", "continue"):
                if what == "break":
                    fr.breaks.extend(preds)
                else:
                    self._connect(preds, fr.head)
                return
            i -= 1
        if what != "return":
            raise AnalysisError("%s outside loop" % what)
        self._connect(preds, EXIT)

    # ------------------------------------------------------------------ queries
    def ids(self, node):
        """CFG node ids of an AST statement (several if it sits in a cloned finally)."""
        return list(self._by_ast.get(id(node), []))

    def stmt_nodes(self):
        for i, k in self.kind.items():
            if self.ast[i] is not None:
                yield i, k, self.ast[i]

    def _reach_from_entry(self):
        return nx.descendants(self.g, ENTRY) | {ENTRY}

    def reachable(self, node):
        r = self._reach_from_entry()
        return any(i in r for i in self.ids(node))

    def idom(self):
        if self._idom is None:
            self._idom = nx.immediate_dominators(self.g, ENTRY)
        return self._idom

    def dom_set(self, i):
        idom = self.idom()
        out = set()
        if i != ENTRY and i not in idom:
            return out
        while True:
            out.add(i)
            if i == ENTRY or i not in idom or idom[i] == i:
                break
            i = idom[i]
        return out

    def dominates(self, a, b):
        """AST stmt a dominates AST stmt b: every reachable copy of b is dominated by some copy of a."""
        a_ids = set(self.ids(a))
        reach = self._reach_from_entry()
        b_ids = [i for i in self.ids(b) if i in reach]
        if not a_ids or not b_ids:
            return False
        return all(self.dom_set(i) & a_ids for i in b_ids)

    def asserted_infeasible_edges(self):
        """
        Edges that cannot be taken because an ``assert <test>`` with the same test text dominates an ``if <test>`` and nothing
        in between assigns a name used in the test: the false edge of that ``if`` is infeasible.
        """
        out = set()
        asserts = [(i, self.ast[i]) for i in self.g.nodes if self.ast[i] is not None and isinstance(self.ast[i], ast.Assert)]
        for i, a in asserts:
            at = ast.unparse(a.test)
            for j in self.g.nodes:
                n = self.ast[j]
                if self.kind[j] == "test" and isinstance(n, ast.If) and ast.unparse(n.test) == at and i in self.dom_set(j):
                    used = {x.id for x in ast.walk(n.test) if isinstance(x, ast.Name)} | {ast.unparse(x) for x in ast.walk(n.test) if isinstance(x, ast.Attribute)}
                    clobbered = False
                    for k in self.g.nodes:
                        st = self.ast[k]
                        if st is None or k in (i, j) or not isinstance(st, (ast.Assign, ast.AugAssign)):
                            continue
                        tg = st.targets if isinstance(st, ast.Assign) else [st.target]
                        if any(ast.unparse(t) in used for t in tg) and self.path_exists([i], [k]) and self.path_exists([k], [j]):
                            clobbered = True
                    if not clobbered:
                        for m in self.g.successors(j):
                            if self.g[j][m]["labels"] == {"false"}:
                                out.add((j, m))
        return out

    def path_exists(self, src_ids, dst_ids, avoid_ids=(), skip_labels=(), skip_edges=()):
        """Is there a path src -> dst that does not pass through any node in avoid (src itself may be in avoid only as start)?"""
        avoid = set(avoid_ids)
        dst = set(dst_ids)
        seen = set()
        stack = list(src_ids)
        while stack:
            n = stack.pop()
            for m in self.g.successors(n):
                if skip_edges and (n, m) in skip_edges:
                    continue
                if skip_labels and self.g[n][m]["labels"] <= set(skip_labels):
                    continue
                if m in dst:
                    return True
                if m in avoid or m in seen:
                    continue
                seen.add(m)
                stack.append(m)
        return False

    def find_path(self, src_ids, dst_ids, avoid_ids=(), skip_labels=()):
        """Like path_exists but returns the list of node ids of one offending path (or None)."""
        avoid = set(avoid_ids)
        dst = set(dst_ids)
        prev = {}
        stack = list(src_ids)
        for s in stack:
            prev[s] = None
        while stack:
            n = stack.pop()
            for m in self.g.successors(n):
                if skip_labels and self.g[n][m]["labels"] <= set(skip_labels):
                    continue
                if m in dst:
                    path = [m, n]
                    while prev[path[-1]] is not None:
                        path.append(prev[path[-1]])
                    return list(reversed(path))
                if m in avoid or m in prev:
                    continue
                prev[m] = n
                stack.append(m)
        return None

    def must_pass(self, a, b, exits=(EXIT,)):
        """Every path from (after) stmt a to any of ``exits`` passes through stmt b (b post-dominates a w.r.t. exits)."""
        return not self.path_exists(self.ids(a), list(exits), avoid_ids=self.ids(b))

    def always_before(self, a, b):
        """Every path from ENTRY to stmt b passes through stmt a."""
        return not self.path_exists([ENTRY], self.ids(b), avoid_ids=self.ids(a))

    def can_follow(self, a, b):
        """There is a path from stmt a to stmt b."""
        return self.path_exists(self.ids(a), self.ids(b))

    def describe_path(self, path, relpath=""):
        out = []
        for i in path:
            k = self.kind[i]
            n = self.ast[i]
            if n is None:
                out.append(k.upper())
            else:
                out.append("L%d" % n.lineno)
        return " -> ".join(out)


# ---------------------------------------------------------------------- syntactic guards
def _negate_flag(pol):
    return not pol


def terminates(block):
    """Does a statement list always end in return/raise/continue/break?"""
    if not block:
        return False
    last = block[-1]
    if isinstance(last, (ast.Return, ast.Raise, ast.Continue, ast.Break)):
        return True
    if isinstance(last, ast.If) and last.orelse:
        return terminates(last.body) and terminates(last.orelse)
    return False


def guards_of(node, stop=None, asserts=True):
    """
    Conditions known to hold when ``node`` executes, from the syntax: a list of (test_expr, polarity).
    Includes enclosing if/while/ifexp branches and earlier sibling early-exits
    (``if c: return/raise/continue``  =>  (c, False) for everything after it in the same block).
    Stops at the enclosing function (or at ``stop``).
    """
    out = []
    child = node
    parent = getattr(node, "_parent", None)
    while parent is not None and not isinstance(parent, (ast.FunctionDef, ast.AsyncFunctionDef, ast.Lambda, ast.ClassDef, ast.Module)):
        if parent is stop:
            # conditions established inside the stop node's own block (an earlier `if c: continue` in the loop body) still hold
            for field in ("body", "orelse", "finalbody"):
                blk = getattr(parent, field, None)
                if isinstance(blk, list) and any(child is s for s in blk):
                    for s in blk:
                        if s is child:
                            break
                        if isinstance(s, ast.If) and terminates(s.body) and not s.orelse:
                            out.append((s.test, False))
                        elif isinstance(s, ast.If) and s.orelse and terminates(s.orelse) and not terminates(s.body):
                            out.append((s.test, True))
                        elif isinstance(s, ast.Assert) and asserts:
                            out.append((s.test, True))
            return out
        if isinstance(parent, (ast.If, ast.While)):
            if any(child is s for s in parent.body):
                out.append((parent.test, True))
            elif any(child is s for s in parent.orelse):
                out.append((parent.test, False))
        elif isinstance(parent, ast.IfExp):
            if child is parent.body:
                out.append((parent.test, True))
            elif child is parent.orelse:
                out.append((parent.test, False))
        elif isinstance(parent, ast.BoolOp) and isinstance(parent.op, ast.And):
            idx = [i for i, v in enumerate(parent.values) if v is child]
            if idx:
                for v in parent.values[: idx[0]]:
                    out.append((v, True))
        elif isinstance(parent, ast.BoolOp) and isinstance(parent.op, ast.Or):
            idx = [i for i, v in enumerate(parent.values) if v is child]
            if idx:
                for v in parent.values[: idx[0]]:
                    out.append((v, False))
        # earlier siblings with early exit
        for field in ("body", "orelse", "finalbody"):
            blk = getattr(parent, field, None)
            if isinstance(blk, list) and any(child is s for s in blk):
                for s in blk:
                    if s is child:
                        break
                    if isinstance(s, ast.If) and terminates(s.body) and not s.orelse:
                        out.append((s.test, False))
                    elif isinstance(s, ast.If) and s.orelse and terminates(s.orelse) and not terminates(s.body):
                        out.append((s.test, True))
                    elif isinstance(s, ast.Assert) and asserts:
                        out.append((s.test, True))
        child = parent
        parent = getattr(parent, "_parent", None)
    # siblings at function level
    if parent is not None and isinstance(parent, (ast.FunctionDef, ast.AsyncFunctionDef)):
        for s in parent.body:
            if s is child:
                break
            if isinstance(s, ast.If) and terminates(s.body) and not s.orelse:
                out.append((s.test, False))
            elif isinstance(s, ast.Assert) and asserts:
                out.append((s.test, True))
    return out


def branch_guards(node, stop=None):
    """Conditions of the enclosing if / elif / else branches only (no earlier early exits, no asserts): [(test, polarity)]."""
    out = []
    child, parent = node, getattr(node, "_parent", None)
    while parent is not None and parent is not stop and not isinstance(parent, (ast.FunctionDef, ast.AsyncFunctionDef, ast.Lambda, ast.ClassDef, ast.Module)):
        if isinstance(parent, (ast.If, ast.While)):
            if any(child is s for s in parent.body):
                out.append((parent.test, True))
            elif any(child is s for s in parent.orelse):
                out.append((parent.test, False))
        child, parent = parent, getattr(parent, "_parent", None)
    return out
