"""
Validator node-kind interpreter (DESIGN 3.8).

For code that validates a Python AST by walking it (``for node in ast.walk(tree): <checks>``): abstractly evaluate the loop
body once per *kind* of node it can be handed.  The abstract value of ``node`` is "an instance of ast.K whose child fields have
kinds drawn from the grammar"; ``isinstance(node, ast.X)``, ``type(node) in {...}``, ``hasattr(node.f, "id")`` are decidable on
that value; tests on concrete field *values* (``node.func.id in whitelist``) are recorded as conditions.  The outcome per kind
is REJECT (a reachable assert/raise whose condition is definitely violated for this kind), ACCEPT, or ACCEPT-IF(conditions).
The domain is the finite set of node classes that can occur in a tree produced by ``ast.parse(..., mode="eval")`` under the
running grammar, so the enumeration is exhaustive.
"""
import ast

TRUE, FALSE = "T", "F"


class Unk:
    def __init__(self, label):
        self.label = label

    def __repr__(self):
        return "?(%s)" % self.label


DEPRECATED_CONSTANT_ALIASES = {"Str": "str", "Num": "number", "Bytes": "bytes", "NameConstant": "True/False/None", "Ellipsis": "..."}


def eval_mode_kinds():
    """All concrete node classes that can appear in an 'eval'-mode tree."""
    roots = [ast.expr, ast.expr_context, ast.boolop, ast.operator, ast.unaryop, ast.cmpop]
    out = [ast.Expression, ast.comprehension, ast.arguments, ast.arg, ast.keyword]

    def rec(c):
        subs = c.__subclasses__()
        if not subs:
            out.append(c)
        for s in subs:
            rec(s)
        if subs and c._fields:
            out.append(c)

    for r in roots:
        rec(r)
    seen = []
    for c in out:
        if c.__name__ in DEPRECATED_CONSTANT_ALIASES or c.__name__ in ("Index", "ExtSlice", "Suite", "AugLoad", "AugStore", "Param"):
            continue
        if c not in seen:
            seen.append(c)
    return seen


def expr_kinds():
    return [k for k in eval_mode_kinds() if issubclass(k, ast.expr)]


class Outcome:
    def __init__(self, verdict, conditions=(), reason=None):
        self.verdict = verdict  # 'reject' | 'accept'
        self.conditions = list(conditions)
        self.reason = reason

    def __repr__(self):
        return "%s%s" % (self.verdict, (" if " + " & ".join(self.conditions)) if self.conditions else "")


class KindInterpreter:
    def __init__(self, module_tree, func_node, loop, root_name=None):
        self.module_tree = module_tree
        self.func = func_node
        self.loop = loop
        self.var = loop.target.id
        self.root_name = root_name
        self.module_consts = {}
        for s in module_tree.body:
            if isinstance(s, ast.Assign) and len(s.targets) == 1 and isinstance(s.targets[0], ast.Name):
                self.module_consts[s.targets[0].id] = s.value
        for s in ast.walk(func_node):
            if isinstance(s, ast.Assign) and len(s.targets) == 1 and isinstance(s.targets[0], ast.Name) and isinstance(s.value, (ast.Tuple, ast.Set, ast.List)):
                self.module_consts.setdefault(s.targets[0].id, s.value)

    # ------------------------------------------------------------------ class expressions
    def classes_of(self, e):
        """Resolve an expression denoting a class / tuple of classes from the ast module.  Returns list of (class|alias-name) or None."""
        if isinstance(e, ast.Attribute) and isinstance(e.value, ast.Name) and e.value.id == "ast":
            if e.attr in DEPRECATED_CONSTANT_ALIASES:
                return [("alias", e.attr)]
            c = getattr(ast, e.attr, None)
            return [c] if isinstance(c, type) else None
        if isinstance(e, (ast.Tuple, ast.Set, ast.List)):
            out = []
            for x in e.elts:
                r = self.classes_of(x)
                if r is None:
                    return None
                out += r
            return out
        if isinstance(e, ast.Name) and e.id in self.module_consts:
            return self.classes_of(self.module_consts[e.id])
        return None

    def field_kinds(self, K, field):
        """Possible kinds of the child in ``field`` of a K node (expression-valued fields only)."""
        if field not in K._fields:
            return None
        return expr_kinds()

    # ------------------------------------------------------------------ conditions
    def subject(self, e, K, child):
        """What does expression e denote: ('node', K) / ('child', field, kind) / None"""
        if isinstance(e, ast.Name) and e.id == self.var:
            return ("node", K)
        if isinstance(e, ast.Attribute) and isinstance(e.value, ast.Name) and e.value.id == self.var:
            f = e.attr
            if f not in K._fields and f not in getattr(K, "_attributes", ()):
                return ("missing", f)
            if child is not None and child[0] == f:
                return ("child", f, child[1])
            return ("field", f)
        return None

    def cond(self, e, K, child):
        if isinstance(e, ast.Constant):
            return TRUE if e.value else FALSE
        if isinstance(e, ast.UnaryOp) and isinstance(e.op, ast.Not):
            v = self.cond(e.operand, K, child)
            return FALSE if v == TRUE else TRUE if v == FALSE else Unk("not " + v.label)
        if isinstance(e, ast.BoolOp):
            unk = []
            for v in e.values:
                r = self.cond(v, K, child)
                if isinstance(e.op, ast.And):
                    if r == FALSE:
                        return FALSE
                    if r != TRUE:
                        unk.append(r)
                else:
                    if r == TRUE:
                        return TRUE
                    if r != FALSE:
                        unk.append(r)
            if not unk:
                return TRUE if isinstance(e.op, ast.And) else FALSE
            return Unk((" and " if isinstance(e.op, ast.And) else " or ").join(u.label for u in unk))
        if isinstance(e, ast.Call) and isinstance(e.func, ast.Name) and e.func.id == "isinstance" and len(e.args) == 2:
            subj = self.subject(e.args[0], K, child)
            cls = self.classes_of(e.args[1])
            if subj is None or cls is None:
                # isinstance(node.value, (int, float)) and the like: a test on a field *value*
                return Unk(ast.unparse(e))
            if subj[0] == "missing":
                return Unk("AttributeError(%s)" % subj[1])
            if subj[0] == "field":
                return Unk(ast.unparse(e))
            kind = subj[1] if subj[0] == "node" else subj[2]
            res = FALSE
            for c in cls:
                if isinstance(c, tuple):
                    if kind is ast.Constant:
                        res = Unk("constant is %s" % DEPRECATED_CONSTANT_ALIASES[c[1]]) if res != TRUE else res
                elif issubclass(kind, c):
                    return TRUE
            return res
        if isinstance(e, ast.Call) and isinstance(e.func, ast.Name) and e.func.id == "hasattr" and len(e.args) == 2 and isinstance(e.args[1], ast.Constant):
            subj = self.subject(e.args[0], K, child)
            name = e.args[1].value
            if subj is None:
                return Unk(ast.unparse(e))
            if subj[0] == "missing":
                return Unk("AttributeError(%s)" % subj[1])
            if subj[0] == "field":
                return Unk(ast.unparse(e))
            kind = subj[1] if subj[0] == "node" else subj[2]
            return TRUE if (name in kind._fields or name in getattr(kind, "_attributes", ())) else FALSE
        if isinstance(e, ast.Compare) and len(e.ops) == 1:
            l, op, r = e.left, e.ops[0], e.comparators[0]
            # type(node) in {...} / type(node) is X / type(node) == X
            if isinstance(l, ast.Call) and isinstance(l.func, ast.Name) and l.func.id == "type" and l.args:
                subj = self.subject(l.args[0], K, child)
                cls = self.classes_of(r)
                if subj is not None and subj[0] in ("node", "child") and cls is not None:
                    kind = subj[1] if subj[0] == "node" else subj[2]
                    hit = any((not isinstance(c, tuple)) and kind is c for c in cls)
                    if isinstance(op, (ast.In, ast.Is, ast.Eq)):
                        return TRUE if hit else FALSE
                    if isinstance(op, (ast.NotIn, ast.IsNot, ast.NotEq)):
                        return FALSE if hit else TRUE
            # node is <root>
            if isinstance(op, (ast.Is, ast.IsNot)) and isinstance(l, ast.Name) and l.id == self.var and isinstance(r, ast.Name) and r.id == self.root_name:
                is_root = K is ast.Expression
                return (TRUE if is_root else FALSE) if isinstance(op, ast.Is) else (FALSE if is_root else TRUE)
            # reads a field that does not exist on this kind
            for n in ast.walk(e):
                if isinstance(n, ast.Attribute) and isinstance(n.value, ast.Name) and n.value.id == self.var and n.attr not in K._fields and n.attr not in getattr(K, "_attributes", ()):
                    return Unk("AttributeError(%s)" % n.attr)
            return Unk(ast.unparse(e))
        for n in ast.walk(e):
            if isinstance(n, ast.Attribute) and isinstance(n.value, ast.Name) and n.value.id == self.var and n.attr not in K._fields and n.attr not in getattr(K, "_attributes", ()):
                return Unk("AttributeError(%s)" % n.attr)
        return Unk(ast.unparse(e))

    # ------------------------------------------------------------------ statements
    def run_block(self, stmts, K, child, conds):
        """Returns Outcome if the block decides (reject / continue-accept), else None with conds extended."""
        for s in stmts:
            if isinstance(s, ast.Assert):
                v = self.cond(s.test, K, child)
                if v == FALSE:
                    return Outcome("reject", conds, "assert `%s`" % ast.unparse(s.test)[:80])
                if v != TRUE:
                    if v.label.startswith("AttributeError"):
                        return Outcome("reject", conds, "the check itself raises %s" % v.label)
                    conds.append(v.label)
            elif isinstance(s, ast.Raise):
                return Outcome("reject", conds, "raise")
            elif isinstance(s, ast.Continue):
                return Outcome("accept", conds)
            elif isinstance(s, ast.If):
                v = self.cond(s.test, K, child)
                if v == TRUE:
                    r = self.run_block(s.body, K, child, conds)
                    if r is not None:
                        return r
                elif v == FALSE:
                    r = self.run_block(s.orelse, K, child, conds)
                    if r is not None:
                        return r
                else:
                    c1, c2 = list(conds), list(conds)
                    r1 = self.run_block(s.body, K, child, c1)
                    r2 = self.run_block(s.orelse, K, child, c2)
                    rej1 = r1 is not None and r1.verdict == "reject"
                    rej2 = r2 is not None and r2.verdict == "reject"
                    if rej1 and rej2:
                        return Outcome("reject", conds, "both branches of `%s` reject" % ast.unparse(s.test)[:60])
                    # at least one way through: acceptance is conditional on the surviving branch's conditions
                    if rej1:
                        conds[:] = c2 + ["not (%s)" % v.label]
                        if r2 is not None:
                            return Outcome("accept", conds)
                    elif rej2:
                        conds[:] = c1 + [v.label]
                        if r1 is not None:
                            return Outcome("accept", conds)
                    else:
                        extra = [x for x in c1 + c2 if x not in conds]
                        conds[:] = conds + (["(%s)" % " | ".join(extra)] if extra else [])
                        if r1 is not None and r2 is not None:
                            return Outcome("accept", conds)
            else:
                continue
        return None

    def outcome(self, K, child=None):
        conds = []
        r = self.run_block(self.loop.body, K, child, conds)
        return r if r is not None else Outcome("accept", conds)

    def referenced_child_fields(self):
        out = set()
        for n in ast.walk(self.loop):
            if isinstance(n, ast.Call) and isinstance(n.func, ast.Name) and n.func.id in ("isinstance", "hasattr") and n.args:
                a = n.args[0]
                if isinstance(a, ast.Attribute) and isinstance(a.value, ast.Name) and a.value.id == self.var:
                    out.add(a.attr)
        return out

    def table(self):
        """{kind name: Outcome} and, for kinds whose verdict depends on a child's kind, {(kind, field, child kind): Outcome}."""
        kinds = eval_mode_kinds()
        fields = self.referenced_child_fields()
        tab, sub = {}, {}
        for K in kinds:
            dep = [f for f in fields if f in K._fields]
            if dep:
                f = dep[0]
                outs = {}
                for C in expr_kinds():
                    outs[C.__name__] = self.outcome(K, (f, C))
                    sub[(K.__name__, f, C.__name__)] = outs[C.__name__]
                acc = [c for c, o in outs.items() if o.verdict == "accept"]
                if not acc:
                    tab[K.__name__] = Outcome("reject", [], "for every kind of `%s`" % f)
                else:
                    conds = []
                    for c in acc:
                        for x in outs[c].conditions:
                            if x not in conds:
                                conds.append(x)
                    tab[K.__name__] = Outcome("accept", ["%s is %s" % (f, "/".join(acc) if len(acc) < 6 else "%d kinds" % len(acc))] + conds)
            else:
                tab[K.__name__] = self.outcome(K)
        return tab, sub


WITNESS = {
    "Attribute": "x.real", "Subscript": "x[0]", "Lambda": "(lambda: 0)", "ListComp": "[y for y in x]", "SetComp": "{y for y in x}", "DictComp": "{y: y for y in x}",
    "GeneratorExp": "max(y for y in x)", "List": "[x, 1]", "Tuple": "(x, 1)", "Set": "{x, 1}", "Dict": "{1: x}", "JoinedStr": "f'{x}'", "FormattedValue": "f'{x}'",
    "Starred": "max(*x)", "keyword": "max(x, key=x)", "NamedExpr": "(y := x)", "Await": "await x", "Yield": "(yield x)", "YieldFrom": "(yield from x)", "Slice": "x[1:2]",
    "comprehension": "[y for y in x]", "arguments": "(lambda: 0)", "arg": "(lambda a: a)", "Store": "[y for y in x]", "Del": "-", "Call(func not a Name)": "x.tofile('p')  /  [open][0]('f')",
}
