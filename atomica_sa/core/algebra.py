"""
Tiny polynomial normal form for arithmetic expressions (engine 3.12, added after the mutation sweep).

An expression built from names / attribute chains / subscripts with  + - * / ** <int>, unary minus and numeric constants is
rewritten as a sum of monomials  coef * prod(atom ** exponent)  with integer exponents (negative = division).
Atoms are compared by their unparsed text after (optional) substitution of single-assignment locals and after
dropping shape-only operations (.reshape(..), .T, .ravel(), np.asarray(..), float(..)), so that two formulas are
"the same" exactly when they are equal as rational functions of their atoms.  Division by a sum is kept as an atom
of its own (the normal form is for the products and quotients that occur in the flow arithmetic, not a CAS).

    poly(node, env)        -> {monomial: Fraction}   monomial = tuple(sorted((atom, exp) ...))
    mono(node, env)        -> (Fraction, {atom: exp}) or None if the expression is not a single monomial
    same(a, b, env)        -> bool
    show(poly)             -> readable text
"""
import ast
from fractions import Fraction

SHAPE_METHODS = {"reshape", "ravel", "flatten", "squeeze", "copy", "tolist"}
SHAPE_FUNCS = {"np.asarray", "np.array", "float", "np.squeeze", "np.ravel", "sc.promotetoarray"}


PURE_FUNCS = {"exp": "exp", "np.exp": "exp", "math.exp": "exp", "log": "log", "np.log": "log", "np.maximum": "maximum", "np.minimum": "minimum", "max": "maximum", "min": "minimum", "np.cumsum": "cumsum", "np.sum": "sum", "sum": "sum", "abs": "abs", "np.abs": "abs", "np.product": "prod", "np.prod": "prod", "np.argsort": "argsort", "np.sqrt": "sqrt", "sqrt": "sqrt", "np.clip": "clip"}
COMMUTATIVE = {"maximum", "minimum"}


def _fname(c):
    return ast.unparse(c.func)


class NotPolynomial(Exception):
    pass


def _strip_shape(e):
    while True:
        if isinstance(e, ast.Call) and isinstance(e.func, ast.Attribute) and e.func.attr in SHAPE_METHODS:
            e = e.func.value
        elif isinstance(e, ast.Attribute) and e.attr == "T":
            e = e.value
        elif isinstance(e, ast.Call) and ast.unparse(e.func) in SHAPE_FUNCS and len(e.args) >= 1:
            e = e.args[0]
        else:
            return e


def _mul(p, q):
    out = {}
    for m1, c1 in p.items():
        for m2, c2 in q.items():
            d = dict(m1)
            for a, x in m2:
                d[a] = d.get(a, 0) + x
            m = tuple(sorted((a, x) for a, x in d.items() if x != 0))
            out[m] = out.get(m, 0) + c1 * c2
    return {m: c for m, c in out.items() if c != 0}


def _add(p, q, sign=1):
    out = dict(p)
    for m, c in q.items():
        out[m] = out.get(m, 0) + sign * c
    return {m: c for m, c in out.items() if c != 0}


def _inv(p):
    if len(p) == 1:
        (m, c), = p.items()
        return {tuple(sorted((a, -x) for a, x in m)): 1 / Fraction(c)}
    # a sum in a denominator: keep it as one atom
    return {((("(" + show(p) + ")"), -1),): Fraction(1)}


def poly(e, env=None, depth=0):
    env = env or {}
    e = _strip_shape(e)
    if depth > 12:
        raise NotPolynomial("too deep")
    if isinstance(e, ast.Constant) and isinstance(e.value, (int, float)) and not isinstance(e.value, bool):
        return {(): Fraction(e.value).limit_denominator(10**9)} if e.value != 0 else {}
    if isinstance(e, ast.UnaryOp) and isinstance(e.op, ast.USub):
        return {m: -c for m, c in poly(e.operand, env, depth + 1).items()}
    if isinstance(e, ast.UnaryOp) and isinstance(e.op, ast.UAdd):
        return poly(e.operand, env, depth + 1)
    if isinstance(e, ast.BinOp) and isinstance(e.op, ast.BitXor) and isinstance(e.right, ast.Constant) and e.right.value == 1:
        # on a 0/1 indicator array  x ^ 1  is  1 - x
        return _add({(): Fraction(1)}, poly(e.left, env, depth + 1), -1)
    if isinstance(e, ast.BinOp):
        if isinstance(e.op, ast.Add):
            return _add(poly(e.left, env, depth + 1), poly(e.right, env, depth + 1))
        if isinstance(e.op, ast.Sub):
            return _add(poly(e.left, env, depth + 1), poly(e.right, env, depth + 1), -1)
        if isinstance(e.op, ast.Mult):
            return _mul(poly(e.left, env, depth + 1), poly(e.right, env, depth + 1))
        if isinstance(e.op, ast.Div):
            return _mul(poly(e.left, env, depth + 1), _inv(poly(e.right, env, depth + 1)))
        if isinstance(e.op, ast.Pow) and isinstance(e.right, ast.Constant) and isinstance(e.right.value, int):
            base = poly(e.left, env, depth + 1)
            n = e.right.value
            out = {(): Fraction(1)}
            for _ in range(abs(n)):
                out = _mul(out, base)
            return out if n >= 0 else _inv(out)
        raise NotPolynomial(ast.unparse(e))
    if isinstance(e, ast.Call) and _fname(e) in PURE_FUNCS:
        args = []
        for a in e.args:
            try:
                args.append(show(poly(a, env, depth + 1)))
            except NotPolynomial:
                args.append(ast.unparse(a))
        if PURE_FUNCS[_fname(e)] in COMMUTATIVE:
            args = sorted(args)
        kws = sorted("%s=%s" % (k.arg, ast.unparse(k.value)) for k in e.keywords if k.arg not in ("out", "dtype"))
        return {(("%s(%s)" % (PURE_FUNCS[_fname(e)], ", ".join(args + kws)), 1),): Fraction(1)}
    if isinstance(e, ast.Name) and e.id in env:
        v = env[e.id]
        return poly(v, {k: x for k, x in env.items() if k != e.id}, depth + 1)
    if isinstance(e, (ast.Name, ast.Attribute, ast.Subscript, ast.Call)):
        return {((ast.unparse(e), 1),): Fraction(1)}
    raise NotPolynomial(ast.unparse(e))


def mono(e, env=None):
    try:
        p = poly(e, env)
    except NotPolynomial:
        return None
    if len(p) != 1:
        return None
    (m, c), = p.items()
    return c, dict(m)


def same(a, b, env=None):
    try:
        return poly(a, env) == poly(b, env)
    except NotPolynomial:
        return False


def parse(text):
    return ast.parse(text, mode="eval").body


def show(p):
    if not p:
        return "0"
    parts = []
    for m, c in sorted(p.items(), key=lambda kv: str(kv[0])):
        num = [a if x == 1 else "%s**%d" % (a, x) for a, x in m if x > 0]
        den = [a if x == -1 else "%s**%d" % (a, -x) for a, x in m if x < 0]
        t = " * ".join(num) or "1"
        if den:
            t += " / " + " / ".join(den)
        if c != 1 or not m:
            t = ("%s" % c) + ("" if not m else " * " + t) if t != "1" else "%s" % c
        parts.append(t)
    return " + ".join(parts)


def single_assign_env(func_node, own_nodes):
    """name -> value for locals of ``func_node`` assigned exactly once (plain Name targets; loop targets and augmented names excluded)."""
    cnt, val = {}, {}
    for s in own_nodes(func_node):
        if isinstance(s, ast.Assign) and len(s.targets) == 1 and isinstance(s.targets[0], ast.Name):
            cnt[s.targets[0].id] = cnt.get(s.targets[0].id, 0) + 1
            val[s.targets[0].id] = s.value
        elif isinstance(s, ast.AugAssign) and isinstance(s.target, ast.Name):
            cnt[s.target.id] = cnt.get(s.target.id, 0) + 2
        elif isinstance(s, (ast.For, ast.comprehension)):
            for x in ast.walk(s.target):
                if isinstance(x, ast.Name):
                    cnt[x.id] = cnt.get(x.id, 0) + 2
    return {k: v for k, v in val.items() if cnt.get(k) == 1}
