"""
Lightweight, table-driven type facts (DESIGN 3.2, Appendix C).

A type is one of
    ('I', frozenset({class fq, ...}))    an instance of one of these repo classes (or a subclass)
    ('C', T)                             a container (list / dict values / odict values) whose elements are T
    ('T', (T1, T2, ...))                 a tuple of known arity
    ('B', name)                          a builtin / library kind: 'str','dict','odict','list','ndarray','float','int','set','DataFrame','bool','None'
    None                                 unknown
Facts are *definite or absent*: rules never act on absence.
"""
import ast

from .loader import AnalysisError, own_nodes, store_targets

# (class fq, attr) -> type ; seeded because assigned from a parameter or by external code (Appendix C)
def I(*names):
    return ("I", frozenset(names))


def C(t):
    return ("C", t)


def B(name):
    return ("B", name)


COMP = "model:Compartment"
LINK = "model:Link"
MPAR = "model:Parameter"
CHAR = "model:Characteristic"
POP = "model:Population"
TS = "utils:TimeSeries"

SEED_ATTRS = {
    ("model:Link", "source"): I(COMP),  # assigned from ctor parameter `source`
    ("model:Link", "dest"): I(COMP),
    ("model:Link", "parameter"): I(MPAR),  # or None
    ("model:TimedCompartment", "parameter"): I(MPAR),
    ("model:TimedCompartment", "flush_link"): I(LINK),
    ("model:Characteristic", "includes"): C(I(COMP, CHAR)),
    ("model:Characteristic", "denominator"): I(COMP, CHAR),
    ("model:Variable", "pop"): I(POP),
    ("model:Compartment", "outlinks"): C(I(LINK)),
    ("model:Compartment", "inlinks"): C(I(LINK)),
    ("model:Parameter", "links"): C(I(LINK)),
    ("model:Parameter", "deps"): C(C(I("model:Variable"))),
    ("model:Population", "comps"): C(I(COMP)),
    ("model:Population", "characs"): C(I(CHAR)),
    ("model:Population", "pars"): C(I(MPAR)),
    ("model:Population", "links"): C(I(LINK)),
    ("model:Population", "comp_lookup"): C(I(COMP)),
    ("model:Population", "charac_lookup"): C(I(CHAR)),
    ("model:Population", "par_lookup"): C(I(MPAR)),
    ("model:Population", "link_lookup"): C(C(I(LINK))),
    ("model:Model", "pops"): C(I(POP)),
    ("model:Model", "progset"): I("programs:ProgramSet"),
    ("model:Model", "program_instructions"): I("programs:ProgramInstructions"),
    ("model:Model", "framework"): I("framework:ProjectFramework"),
    ("model:Model", "_vars_by_pop"): C(C(I("model:Variable"))),
    ("results:Result", "model"): I("model:Model"),
    ("results:Result", "framework"): I("framework:ProjectFramework"),
    ("parameters:Parameter", "ts"): C(I(TS)),
    ("parameters:ParameterSet", "pars"): C(I("parameters:Parameter")),
    ("parameters:ParameterSet", "initialization"): I("parameters:Initialization"),
    ("excel:TimeDependentValuesEntry", "ts"): C(I(TS)),
    ("excel:TimeDependentConnections", "ts"): C(I(TS)),
    ("project:Project", "data"): I("data:ProjectData"),
    ("project:Project", "framework"): I("framework:ProjectFramework"),
    ("project:Project", "settings"): I("project:ProjectSettings"),
    ("project:Project", "progsets"): C(I("programs:ProgramSet")),
    ("project:Project", "parsets"): C(I("parameters:ParameterSet")),
    ("project:Project", "results"): C(I("results:Result")),
    ("data:ProjectData", "transfers"): C(I("excel:TimeDependentConnections")),
    ("data:ProjectData", "interpops"): C(I("excel:TimeDependentConnections")),
    ("data:ProjectData", "tdve"): C(I("excel:TimeDependentValuesEntry")),
    ("programs:ProgramSet", "programs"): C(I("programs:Program")),
    ("programs:ProgramSet", "covouts"): C(I("programs:Covout")),
    ("programs:Program", "spend_data"): I(TS),
    ("programs:Program", "baseline_spend"): I(TS),
    ("programs:Program", "unit_cost"): I(TS),
    ("programs:Program", "capacity_constraint"): I(TS),
    ("programs:Program", "saturation"): I(TS),
    ("programs:Program", "coverage"): I(TS),
    ("programs:ProgramInstructions", "alloc"): C(I(TS)),
    ("programs:ProgramInstructions", "capacity"): C(I(TS)),
    ("programs:ProgramInstructions", "coverage"): C(I(TS)),
    ("programs:Covout", "progs"): B("dict"),
    ("programs:Covout", "_interactions"): B("dict"),
    ("plotting:PlotData", "series"): C(I("plotting:Series")),
    ("optimization:Optimization", "adjustments"): C(I("optimization:Adjustment")),
    ("optimization:Optimization", "measurables"): C(I("optimization:Measurable")),
    ("optimization:Optimization", "constraints"): C(I("optimization:Constraint")),
}

# (class fq, attr, literal key) -> type of ``obj.attr["key"]`` for the two heterogeneous cache dicts of Model
SEED_SUBSCRIPTS = {
    ("model:Model", "_exec_order", "transition_pars"): C(I(MPAR)),
    ("model:Model", "_exec_order", "junctions"): C(I("model:JunctionCompartment")),
    ("model:Model", "_exec_order", "characs"): C(I(CHAR)),
    ("model:Model", "_program_cache", "comps"): C(C(I(COMP))),
}

# method name -> return type, for lookups whose result type is fixed by the repo's naming convention (confirmed by reading)
SEED_RETURNS = {
    ("model:Population", "get_comp"): I(COMP),
    ("model:Population", "get_charac"): I(CHAR),
    ("model:Population", "get_par"): I(MPAR),
    ("model:Population", "get_variable"): C(I("model:Variable")),
    ("model:Population", "get_links"): C(I(LINK)),
    ("model:Model", "get_pop"): I(POP),
    ("results:Result", "get_variable"): C(I("model:Variable")),
    ("parameters:ParameterSet", "get_par"): I("parameters:Parameter"),
    ("parameters:ParameterSet", "all_pars"): C(I("parameters:Parameter")),
}

# parameter-name conventions that are uniform in this repo (confirmed by reading every def that uses the name)
PARAM_NAME_TYPES = {
    "parset": I("parameters:ParameterSet"),
    "progset": I("programs:ProgramSet"),
    "framework": I("framework:ProjectFramework"),
    "instructions": I("programs:ProgramInstructions"),
    "program_instructions": I("programs:ProgramInstructions"),
    "result": I("results:Result"),
    "model": I("model:Model"),
    "project": I("project:Project"),
    "proj": I("project:Project"),
    "settings": I("project:ProjectSettings"),
}

# modules where the names above are used for other things (old pickled dicts in migration, a string label in plotting.Series, a callback in utils)
NAME_CONVENTION_EXCLUDED_MODULES = {"migration", "utils", "plotting"}

BUILTIN_CTORS = {
    "dict": "dict", "list": "list", "set": "set", "str": "str", "float": "float", "int": "int", "tuple": "tuple", "bool": "bool",
    "sc.odict": "odict", "odict": "odict", "defaultdict": "dict", "sc.dcp": None, "np.array": "ndarray", "np.zeros": "ndarray", "np.ones": "ndarray",
    "np.empty": "ndarray", "np.full": "ndarray", "np.arange": "ndarray", "np.linspace": "ndarray", "np.zeros_like": "ndarray", "np.ones_like": "ndarray",
    "sc.promotetoarray": "ndarray", "np.concatenate": "ndarray", "np.minimum": "ndarray", "np.maximum": "ndarray", "np.sum": "ndarray", "np.matmul": "ndarray",
    "np.interp": "ndarray", "np.clip": "ndarray", "np.divide": "ndarray", "np.multiply": "ndarray", "np.exp": "ndarray",
    "pd.DataFrame": "DataFrame", "sorted": "list", "sc.promotetolist": "list", "sc.dedent": "str",
}


def is_inst(t):
    return t is not None and t[0] == "I"


def join(a, b):
    if a is None:
        return b
    if b is None:
        return a
    if a == b:
        return a
    if a[0] == "I" and b[0] == "I":
        return ("I", a[1] | b[1])
    if a[0] == "C" and b[0] == "C":
        return ("C", join(a[1], b[1]))
    return None  # conflicting kinds -> unknown (never guess)


class Types:
    def __init__(self, repo):
        self.repo = repo
        self.attr = dict(SEED_ATTRS)
        self._env_cache = {}
        self._ret_cache = {}
        self._infer_attr_table()

    # ------------------------------------------------------------------ class helpers
    def classes_of(self, t):
        """ClassInfo objects named by an instance type."""
        if not is_inst(t):
            return []
        out = []
        for fq in t[1]:
            m, _, c = fq.partition(":")
            ci = self.repo.modules.get(m) and self.repo.modules[m].classes.get(c)
            if ci is not None:
                out.append(ci)
        return out

    def isa(self, t, module, clsname):
        """Is every class in instance type t a subclass of module:clsname?  (definite)"""
        target = self.repo.cls(module, clsname)
        cs = self.classes_of(t)
        return bool(cs) and all(self.repo.is_subclass(c, target) for c in cs)

    def may_be(self, t, module, clsname):
        """Could a value of instance type t be an instance of module:clsname (t names the class, a subclass or a superclass)?"""
        target = self.repo.cls(module, clsname)
        for c in self.classes_of(t):
            if self.repo.is_subclass(c, target) or self.repo.is_subclass(target, c):
                return True
        return False

    def attr_type(self, t, attr):
        """Type of ``<value of type t>.attr`` via the attribute table, looking through the MRO (and into subclasses for base-typed values)."""
        if not is_inst(t):
            return None
        res = None
        found = False
        for ci in self.classes_of(t):
            cand = None
            for c in self.repo.mro(ci):
                if (c.fq, attr) in self.attr:
                    cand = self.attr[(c.fq, attr)]
                    break
            if cand is None:
                # attribute defined only on subclasses (e.g. Variable-typed value with .outlinks)
                for c in self.repo.subclasses(ci, strict=True):
                    if (c.fq, attr) in self.attr:
                        cand = join(cand, self.attr[(c.fq, attr)]) if cand else self.attr[(c.fq, attr)]
            if cand is not None:
                res = cand if not found else join(res, cand)
                found = True
        return res

    # ------------------------------------------------------------------ attribute table inference
    def _infer_attr_table(self):
        for _ in range(2):
            self._env_cache.clear()
            for ci in self.repo.all_classes():
                for fi in list(ci.methods.values()) + list(ci.setters.values()):
                    if fi.is_static:
                        continue
                    selfname = fi.params[0] if fi.params else None
                    if not selfname:
                        continue
                    env = None
                    for n in own_nodes(fi.node):
                        if isinstance(n, ast.Assign):
                            for t in n.targets:
                                self._record_attr_store(ci, fi, selfname, t, n.value, env_getter=lambda: self.env(fi))
                        elif isinstance(n, ast.Call) and isinstance(n.func, ast.Attribute) and n.func.attr in ("append", "insert") and n.args:
                            tgt = n.func.value
                            if isinstance(tgt, ast.Attribute) and isinstance(tgt.value, ast.Name) and tgt.value.id == selfname and not fi.is_classmethod:
                                vt = self.expr_type(n.args[-1], self.env(fi), fi)
                                if vt is not None:
                                    key = (ci.fq, tgt.attr)
                                    if key not in SEED_ATTRS:
                                        self.attr[key] = join(self.attr.get(key) if self.attr.get(key, (None,))[0] == "C" else None, C(vt)) or C(vt)

    def _record_attr_store(self, ci, fi, selfname, target, value, env_getter):
        if fi.is_classmethod:
            return
        if isinstance(target, ast.Attribute) and isinstance(target.value, ast.Name) and target.value.id == selfname:
            key = (ci.fq, target.attr)
            if key in SEED_ATTRS:
                return
            vt = self.expr_type(value, env_getter(), fi)
            if vt is not None:
                old = self.attr.get(key)
                if old is None:
                    self.attr[key] = vt
                elif old[0] == "C" and vt[0] == "B":
                    pass  # `self.x = []` then appends: keep the element type
                elif old[0] == "B" and vt[0] == "C":
                    self.attr[key] = vt
                else:
                    j = join(old, vt)
                    if j is not None:
                        self.attr[key] = j
        elif isinstance(target, ast.Subscript) and isinstance(target.value, ast.Attribute) and isinstance(target.value.value, ast.Name) and target.value.value.id == selfname:
            key = (ci.fq, target.value.attr)
            if key in SEED_ATTRS:
                return
            vt = self.expr_type(value, env_getter(), fi)
            if vt is not None and vt[0] in ("I",):
                old = self.attr.get(key)
                if old is None or old[0] == "B":
                    self.attr[key] = C(vt)
                elif old[0] == "C":
                    self.attr[key] = C(join(old[1], vt)) if join(old[1], vt) is not None else old

    # ------------------------------------------------------------------ per-function environments
    def env(self, fi):
        """name -> type for the locals and parameters of ``fi`` (flow-insensitive; conflicting bindings -> unknown)."""
        if fi.fq in self._env_cache:
            return self._env_cache[fi.fq]
        env = {}
        self._env_cache[fi.fq] = env  # break recursion
        if fi.parent is not None:
            env.update(self.env(fi.parent))
        a = fi.node.args
        allargs = a.posonlyargs + a.args + a.kwonlyargs
        for i, arg in enumerate(allargs):
            t = None
            if arg.annotation is not None:
                t = self._annotation_type(fi, arg.annotation)
            if t is None and arg.arg in PARAM_NAME_TYPES and fi.module.name not in NAME_CONVENTION_EXCLUDED_MODULES:
                d = a.defaults + a.kw_defaults
                # a string default ("default") contradicts the convention: no fact
                t = PARAM_NAME_TYPES[arg.arg]
            if i == 0 and fi.cls is not None and not fi.is_static and fi.parent is None:
                t = I(fi.cls.fq) if not fi.is_classmethod else None
            if t is not None:
                env[arg.arg] = t
        conflicts = set()
        param_names = {a_.arg for a_ in allargs}
        if a.vararg:
            param_names.add(a.vararg.arg)
        if a.kwarg:
            param_names.add(a.kwarg.arg)
        untyped_params = {p_ for p_ in param_names if p_ not in env}

        def bind(name, t):
            if t is None:
                return
            if name in conflicts:
                return
            if name in env and env[name] != t:
                j = join(env[name], t)
                if j is None:
                    conflicts.add(name)
                    env.pop(name, None)
                else:
                    env[name] = j
            else:
                env[name] = t

        def each_binding(cb):
            for n in own_nodes(fi.node):
                if isinstance(n, ast.Assign):
                    vt = self.expr_type(n.value, env, fi)
                    for t in n.targets:
                        self._bind_target2(t, vt, cb)
                elif isinstance(n, ast.AnnAssign) and n.value is not None and isinstance(n.target, ast.Name):
                    cb(n.target.id, self.expr_type(n.value, env, fi))
                elif isinstance(n, ast.AugAssign) and isinstance(n.target, ast.Name):
                    cb(n.target.id, env.get(n.target.id) if (env.get(n.target.id) or (None,))[0] == "B" else None)
                elif isinstance(n, (ast.For, ast.comprehension)):
                    et = self.elem_type(n.iter, env, fi)
                    self._bind_target2(n.target, et, cb)
                elif isinstance(n, ast.With):
                    for it in n.items:
                        if it.optional_vars is not None:
                            self._bind_target2(it.optional_vars, self.expr_type(it.context_expr, env, fi), cb)
                elif isinstance(n, ast.ExceptHandler) and n.name:
                    cb(n.name, None)

        for _ in range(3):
            each_binding(bind)
        # a fact is definite or absent: one binding of unknown type makes the name unknown (parameters with a typed annotation
        # or convention keep their type only if never rebound to something unknown)
        for _ in range(3):
            unknown = set()

            def probe(name, t):
                if t is None:
                    unknown.add(name)

            each_binding(probe)
            unknown |= untyped_params  # the value passed in is a binding of unknown type
            drop = [n_ for n_ in unknown if n_ in env]
            if not drop:
                break
            for n_ in drop:
                env.pop(n_, None)
                conflicts.add(n_)
        return env

    def _bind_target2(self, target, t, cb):
        """like _bind_target but also reports names whose component type is unknown"""
        if isinstance(target, ast.Name):
            cb(target.id, t)
        elif isinstance(target, (ast.Tuple, ast.List)):
            if t is not None and t[0] == "T" and len(t[1]) == len(target.elts):
                for e, et in zip(target.elts, t[1]):
                    self._bind_target2(e, et, cb)
            else:
                for e in target.elts:
                    self._bind_target2(e, None, cb)
        elif isinstance(target, ast.Starred):
            self._bind_target2(target.value, None, cb)

    def _bind_target(self, target, t, bind):
        if isinstance(target, ast.Name):
            bind(target.id, t)
        elif isinstance(target, (ast.Tuple, ast.List)) and t is not None and t[0] == "T" and len(t[1]) == len(target.elts):
            for e, et in zip(target.elts, t[1]):
                self._bind_target(e, et, bind)

    def _annotation_type(self, fi, ann):
        try:
            txt = ast.unparse(ann)
        except Exception:
            return None
        txt = txt.strip("'\"")
        ci = self.repo.resolve_class_name(fi.module, txt)
        if ci is not None:
            return I(ci.fq)
        return None  # annotations naming builtin kinds are documentation in this repo (e.g. `source: str` also accepts a Spreadsheet): not a definite fact

    # ------------------------------------------------------------------ expressions
    def elem_type(self, it, env, fi):
        """Type of the loop variable for ``for x in <it>``."""
        if isinstance(it, ast.Call):
            fn = ast.unparse(it.func)
            if fn == "enumerate" and it.args:
                return ("T", (B("int"), self.elem_type(it.args[0], env, fi)))
            if fn == "zip":
                return ("T", tuple(self.elem_type(a, env, fi) for a in it.args))
            if fn in ("sorted", "reversed", "list", "tuple") and it.args:
                return self.elem_type(it.args[0], env, fi)
            if isinstance(it.func, ast.Attribute):
                base = self.expr_type(it.func.value, env, fi)
                if it.func.attr == "values" and base is not None and base[0] == "C":
                    return base[1]
                if it.func.attr == "items" and base is not None and base[0] == "C":
                    return ("T", (None, base[1]))
                if it.func.attr == "keys":
                    return None
        t = self.expr_type(it, env, fi)
        if t is not None and t[0] == "C":
            return t[1]
        return None

    def _unused(self):
        pass

    def expr_type(self, e, env, fi):
        if isinstance(e, ast.Name):
            return env.get(e.id)
        if isinstance(e, ast.Constant):
            v = e.value
            if isinstance(v, str):
                return B("str")
            if isinstance(v, bool):
                return B("bool")
            if isinstance(v, (int, float)):
                return B("float")
            if v is None:
                return None
            return None
        if isinstance(e, ast.JoinedStr):
            return B("str")
        if isinstance(e, ast.Dict):
            return B("dict")
        if isinstance(e, (ast.List, ast.ListComp)):
            if isinstance(e, ast.List):
                ts = [self.expr_type(x, env, fi) for x in e.elts]
                if ts and all(t is not None and t[0] == "I" for t in ts):
                    r = ts[0]
                    for t in ts[1:]:
                        r = join(r, t)
                    return C(r)
                return B("list")
            env2 = dict(env)
            for gen in e.generators:
                self._bind_target(gen.target, self.elem_type(gen.iter, env2, fi), lambda n, t: env2.__setitem__(n, t) if t is not None else None)
            et = self.expr_type(e.elt, env2, fi)
            return C(et) if et is not None and et[0] in ("I", "C") else B("list")
        if isinstance(e, ast.DictComp):
            env2 = dict(env)
            for gen in e.generators:
                self._bind_target(gen.target, self.elem_type(gen.iter, env2, fi), lambda n, t: env2.__setitem__(n, t) if t is not None else None)
            vt = self.expr_type(e.value, env2, fi)
            return C(vt) if vt is not None and vt[0] in ("I", "C") else B("dict")
        if isinstance(e, (ast.Set, ast.SetComp)):
            return B("set")
        if isinstance(e, ast.Tuple):
            return ("T", tuple(self.expr_type(x, env, fi) for x in e.elts))
        if isinstance(e, ast.Attribute):
            bt = self.expr_type(e.value, env, fi)
            if is_inst(bt):
                at = self.attr_type(bt, e.attr)
                if at is not None:
                    return at
                # property getter with inferable return
                for ci in self.classes_of(bt):
                    m = self.repo.find_method(ci, e.attr)
                    if m is not None and m.is_property:
                        return self.return_type(m)
            return None
        if isinstance(e, ast.Subscript):
            if isinstance(e.value, ast.Attribute) and isinstance(e.slice, ast.Constant) and isinstance(e.slice.value, str):
                ot = self.expr_type(e.value.value, env, fi)
                for ci in self.classes_of(ot):
                    for c in self.repo.mro(ci):
                        if (c.fq, e.value.attr, e.slice.value) in SEED_SUBSCRIPTS:
                            return SEED_SUBSCRIPTS[(c.fq, e.value.attr, e.slice.value)]
            bt = self.expr_type(e.value, env, fi)
            if bt is not None and bt[0] == "C":
                if isinstance(e.slice, ast.Slice):
                    return bt
                return bt[1]
            if bt is not None and bt[0] == "T" and isinstance(e.slice, ast.Constant) and isinstance(e.slice.value, int) and -len(bt[1]) <= e.slice.value < len(bt[1]):
                return bt[1][e.slice.value]
            if bt is not None and bt == B("ndarray"):
                return B("ndarray")
            return None
        if isinstance(e, ast.BinOp) and isinstance(e.op, ast.Add):
            lt, rt = self.expr_type(e.left, env, fi), self.expr_type(e.right, env, fi)
            if lt is not None and rt is not None and lt[0] == "C" and rt[0] == "C":
                return C(join(lt[1], rt[1])) if join(lt[1], rt[1]) is not None else None
            return None
        if isinstance(e, ast.IfExp):
            a, b = self.expr_type(e.body, env, fi), self.expr_type(e.orelse, env, fi)
            if a is None or b is None:
                return a if (isinstance(e.orelse, ast.Constant) and e.orelse.value is None) else (b if (isinstance(e.body, ast.Constant) and e.body.value is None) else None)
            return join(a, b)
        if isinstance(e, ast.Call):
            return self.call_type(e, env, fi)
        return None

    def call_type(self, e, env, fi):
        fn = None
        try:
            fn = ast.unparse(e.func)
        except Exception:
            pass
        if fn in ("sc.dcp", "copy.deepcopy", "copy.copy", "dcp", "deepcopy") and e.args:
            return self.expr_type(e.args[0], env, fi)
        if fn in BUILTIN_CTORS and BUILTIN_CTORS[fn]:
            if fn in ("list", "sorted", "sc.promotetolist") and e.args:
                t = self.expr_type(e.args[0], env, fi)
                if t is not None and t[0] == "C":
                    return t
            return B(BUILTIN_CTORS[fn])
        if isinstance(e.func, ast.Name):
            if e.func.id == "cls" and fi is not None and fi.is_classmethod and fi.cls is not None:
                return I(fi.cls.fq)
            ci = self.repo.resolve_class_name(fi.module, e.func.id) if fi is not None else None
            if ci is not None:
                return I(ci.fq)
            f = self.repo.resolve_function_name(fi.module, e.func.id) if fi is not None else None
            if f is not None:
                return self.return_type(f)
            return None
        if isinstance(e.func, ast.Attribute) and e.func.attr == "to_dict":
            orient = next((k.value for k in e.keywords if k.arg == "orient"), None)
            if isinstance(orient, ast.Constant) and orient.value == "records":
                return C(B("dict"))  # pandas: a list of one dict per row
            return B("dict")
        if isinstance(e.func, ast.Attribute):
            # module-qualified class, e.g. at.ProgramSet(...)
            bt = self.expr_type(e.func.value, env, fi)
            if is_inst(bt):
                rt = None
                found = False
                for ci in self.classes_of(bt):
                    for c in self.repo.mro(ci):
                        if (c.fq, e.func.attr) in SEED_RETURNS:
                            rt = SEED_RETURNS[(c.fq, e.func.attr)] if not found else join(rt, SEED_RETURNS[(c.fq, e.func.attr)])
                            found = True
                            break
                    else:
                        m = self.repo.find_method(ci, e.func.attr)
                        if m is not None:
                            if e.func.attr == "copy" or e.func.attr == "__deepcopy__":
                                r = I(ci.fq)
                            else:
                                r = self.return_type(m)
                                if r is None and m.is_classmethod:
                                    r = None
                            rt = r if not found else join(rt, r)
                            found = True
                return rt
            if bt is not None and bt[0] == "C":
                if e.func.attr in ("values", "copy"):
                    return bt
                if e.func.attr in ("get", "pop") and e.args:
                    return bt[1]
            # ClassName.classmethod(...)
            if isinstance(e.func.value, ast.Name) and fi is not None:
                ci = self.repo.resolve_class_name(fi.module, e.func.value.id)
                if ci is not None:
                    m = self.repo.find_method(ci, e.func.attr)
                    if m is not None:
                        if m.is_classmethod:
                            r = self.return_type(m, cls_override=ci)
                            return r
                        return self.return_type(m)
        return None

    def return_type(self, f, cls_override=None):
        key = (f.fq, cls_override.fq if cls_override else None)
        if key in self._ret_cache:
            return self._ret_cache[key]
        self._ret_cache[key] = None
        for (cfq, name), t in SEED_RETURNS.items():
            if f.cls is not None and f.cls.fq == cfq and f.name == name:
                self._ret_cache[key] = t
                return t
        env = self.env(f)
        res = None
        first = True
        ok = True
        for n in own_nodes(f.node):
            if isinstance(n, ast.Return) and n.value is not None:
                t = self.expr_type(n.value, env, f)
                if cls_override is not None and isinstance(n.value, ast.Name):
                    pass
                if t is None:
                    ok = False
                    break
                res = t if first else join(res, t)
                first = False
                if res is None:
                    ok = False
                    break
        if not ok:
            res = None
        if res is not None and cls_override is not None and f.is_classmethod and is_inst(res) and f.cls is not None and res == I(f.cls.fq):
            res = I(cls_override.fq)
        self._ret_cache[key] = res
        return res

    # ------------------------------------------------------------------ narrowing
    def type_at(self, expr, fi, at_node=None):
        """Type of ``expr`` evaluated at ``at_node`` in ``fi``: env type narrowed by enclosing isinstance guards."""
        from .cfg import guards_of

        env = self.env(fi)
        t = self.expr_type(expr, env, fi)
        node = at_node if at_node is not None else expr
        try:
            txt = ast.unparse(expr)
        except Exception:
            return t
        for test, pol in guards_of(node):
            for sub in ast.walk(test) if pol else []:
                if isinstance(sub, ast.Call) and isinstance(sub.func, ast.Name) and sub.func.id == "isinstance" and len(sub.args) == 2 and ast.unparse(sub.args[0]) == txt:
                    # only a plain positive test (or a conjunct of one) narrows
                    if not _is_positive_conjunct(test, sub):
                        continue
                    names = sub.args[1].elts if isinstance(sub.args[1], ast.Tuple) else [sub.args[1]]
                    cis = [self.repo.resolve_class_name(fi.module, ast.unparse(nm)) for nm in names]
                    if cis and all(c is not None for c in cis):
                        t = ("I", frozenset(c.fq for c in cis))
        return t


def _is_positive_conjunct(test, sub):
    if test is sub:
        return True
    if isinstance(test, ast.BoolOp) and isinstance(test.op, ast.And):
        return any(_is_positive_conjunct(v, sub) for v in test.values)
    return False
