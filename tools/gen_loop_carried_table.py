#!/venv/bin/python
"""Freeze the locals that are carried across loop iterations on the reviewed tree (rules/tables/loop_carried.json) - the
exceptions of shapes.loop_carried_rule.  Every entry was read; run by hand after a reviewed change of /repo, never at check time."""
import json
import os
import sys

HERE = os.path.dirname(os.path.dirname(os.path.abspath(__file__)))
sys.path.insert(0, HERE)
from atomica_sa.core.loader import Repo  # noqa: E402
from atomica_sa.rules import shapes  # noqa: E402

repo = Repo.load("/repo")
out = {}
for name, m in sorted(repo.modules.items()):
    rows = set()
    for fi in m.all_functions():
        try:
            for v, loop, r in shapes.loop_carried(repo, fi):
                rows.add((fi.qualname, v))
        except Exception as e:
            print("skip", fi.fq, e)
    if rows:
        out[name] = sorted(rows)
json.dump(out, open(os.path.join(shapes.TABLES, "loop_carried.json"), "w"), indent=0, sort_keys=True)
for k, v in out.items():
    for r in v:
        print(k, r)
print(sum(len(v) for v in out.values()), "deliberately carried locals")

# per-item stores whose value depends on the loop variable (reference of shapes.loop_dependence_rule)
out = {}
for name, m in sorted(repo.modules.items()):
    tab = {}
    for fi in m.all_functions():
        rows = sorted(k for k, dep in shapes.loop_dependent_stores(fi).items() if dep)
        if rows:
            tab[fi.qualname] = [list(r) for r in rows]
    if tab:
        out[name] = tab
json.dump(out, open(os.path.join(shapes.TABLES, "loop_stores.json"), "w"), indent=0, sort_keys=True)
print(sum(len(r) for v in out.values() for r in v.values()), "per-item stores depending on their loop variable")

# loop variables read after their loop and skip-item handlers on the reviewed tree (reference of shapes.loop_scope_rule)
ra, sk = {}, {}
for name, m in sorted(repo.modules.items()):
    rows, tab = set(), {}
    for fi in m.all_functions():
        try:
            for v, lp, r in shapes.loop_targets_read_after(repo, fi):
                rows.add((fi.qualname, v))
        except Exception as e:
            print("skip", fi.fq, e)
        h = shapes.skip_item_handlers(fi)
        if h:
            tab[fi.qualname] = [list(x) for x in h]
    if rows:
        ra[name] = sorted(rows)
    if tab:
        sk[name] = tab
json.dump({"read_after": ra, "skip_handlers": sk}, open(os.path.join(shapes.TABLES, "loop_scope.json"), "w"), indent=0, sort_keys=True)
print(sum(len(v) for v in ra.values()), "loop variables read after their loop (reviewed),", sum(len(x) for v in sk.values() for x in v.values()), "skip-item handlers")
