#!/venv/bin/python
"""
Run every quick check against a scratch copy of /repo/atomica with one seeded change applied.
usage: tools/try_seed.py <dir with patch.diff> [Cxx ...]      (default: all 20 properties)
Prints, per property, the exit code and the new findings; exit 0 iff at least one check fires (exit 1) on the seeded tree.
"""
import json
import os
import shutil
import subprocess
import sys
import tempfile

HERE = os.path.dirname(os.path.dirname(os.path.abspath(__file__)))


def main():
    d = sys.argv[1]
    props = sys.argv[2:] or ["C%02d" % i for i in range(1, 21)]
    scratch = tempfile.mkdtemp(prefix="seedtry_")
    try:
        shutil.copytree("/repo/atomica", os.path.join(scratch, "atomica"), ignore=shutil.ignore_patterns("*.xlsx", "__pycache__", "library"))
        r = subprocess.run(["patch", "-p1", "-s", "-f", "--no-backup-if-mismatch", "-d", scratch, "-i", os.path.abspath(os.path.join(d, "patch.diff"))], capture_output=True, text=True)
        if r.returncode != 0:
            print("patch does not apply:", r.stdout, r.stderr)
            return 2
        evd = os.path.join(scratch, "ev")
        fired = []
        for p in props:
            r = subprocess.run([os.path.join(HERE, "check"), p, "--repo", scratch, "--evidence-dir", evd], capture_output=True, text=True)
            lines = [l for l in r.stdout.splitlines() if l.lstrip().startswith(("FINDING", "ANALYSIS-ERROR"))]
            if r.returncode != 0:
                print("%s rc=%d" % (p, r.returncode))
                rp = os.path.join(evd, "replay", p + ".json")
                if r.returncode == 1 and os.path.exists(rp):
                    for f in json.load(open(rp)):
                        print("    %s %s %s | %s" % (f["rule"], f["site"], f["function"], f["message"][:200]))
                    fired.append(p)
                for l in lines:
                    if l.startswith("ANALYSIS"):
                        print("    " + l[:250])
        print("caught by: %s" % (", ".join(fired) or "NOTHING"))
        return 0 if fired else 1
    finally:
        shutil.rmtree(scratch, ignore_errors=True)


if __name__ == "__main__":
    sys.exit(main())
