#!/venv/bin/python
"""Freeze the locals of every function of /repo/atomica (rules/tables/locals.json) - the reference for core/alpha.py.
Run by hand after a reviewed change of /repo; never at check time."""
import ast
import glob
import json
import os
import sys

HERE = os.path.dirname(os.path.dirname(os.path.abspath(__file__)))
sys.path.insert(0, HERE)
from atomica_sa.core import alpha, normalise  # noqa: E402

out = {}
for f in sorted(glob.glob("/repo/atomica/*.py")):
    tree = ast.parse(open(f).read())
    normalise.normalise(tree)
    out[os.path.basename(f)[:-3]] = {qn: alpha.local_shapes(fn) for qn, fn in alpha.functions_of(tree)}
json.dump(out, open(alpha.TABLE, "w"), indent=0, sort_keys=True)
# comparison orientation and if/else polarity of the reviewed tree (after N1-N4, N7), the reference of normalise.orient
cmp = {}
for f in sorted(glob.glob("/repo/atomica/*.py")):
    tree = ast.parse(open(f).read())
    normalise.normalise(tree)
    tab = {}
    for qn, fn in normalise.functions_of(tree):
        c, t = normalise.shapes_of(fn)
        if c or t:
            tab[qn] = {"cmp": c, "tests": t}
    cmp[os.path.basename(f)[:-3]] = tab
json.dump(cmp, open(os.path.join(os.path.dirname(alpha.TABLE), "comparisons.json"), "w"), indent=0, sort_keys=True)
print(sum(len(x["cmp"]) for v in cmp.values() for x in v.values()), "comparisons,", sum(len(x["tests"]) for v in cmp.values() for x in v.values()), "if/else tests")
print(sum(len(v) for v in out.values()), "functions,", sum(len(x) for v in out.values() for x in v.values()), "locals")

# fields stored on self per class and the attribute vocabulary of the package (reference of alpha.canonicalise_attributes)
trees = {}
for f in sorted(glob.glob("/repo/atomica/*.py")):
    trees[os.path.basename(f)[:-3]] = ast.parse(open(f).read())
voc, _ = alpha.attribute_vocabulary(trees.values())
classes = {mod: {c.name: {k: list(v) for k, v in alpha.class_fields(c).items()} for c in t.body if isinstance(c, ast.ClassDef)} for mod, t in trees.items()}
json.dump({"vocabulary": sorted(voc), "classes": classes}, open(os.path.join(os.path.dirname(alpha.TABLE), "attributes.json"), "w"), indent=0, sort_keys=True)
print(len(voc), "attribute names,", sum(len(x) for v in classes.values() for x in v.values()), "fields")
