#!/venv/bin/python
"""Freeze the locals of every function of /repo/atomica (rules/tables/locals.json) - the reference for core/alpha.py.
Run by hand after a reviewed change of /repo; never at check time."""
import ast
import glob
import json
import os
import sys

HERE = os.path.dirname(os.path.dirname(os.path.abspath(__file__)))
sys.path.insert(0, HERE)
from atomica_sa.core import alpha, normalise  # noqa: E402

out = {}
for f in sorted(glob.glob("/repo/atomica/*.py")):
    tree = ast.parse(open(f).read())
    normalise.normalise(tree)
    out[os.path.basename(f)[:-3]] = {qn: alpha.local_shapes(fn) for qn, fn in alpha.functions_of(tree)}
json.dump(out, open(alpha.TABLE, "w"), indent=0, sort_keys=True)
print(sum(len(v) for v in out.values()), "functions,", sum(len(x) for v in out.values() for x in v.values()), "locals")
