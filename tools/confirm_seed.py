#!/venv/bin/python
"""
Confirm a seeded change independently of the sub-agent that wrote it (triage tool, not a check):
  tools/confirm_seed.py <id> [--worktree DIR] [--skip-tests]
Creates its own scratch worktree of /repo HEAD under /tmp, applies /tmp/seed_out/<id>/patch.diff, and records
  demo exit code with the change, demo exit code without it, and the result of the 76 baseline tests with the change.
Writes /tmp/seed_out/<id>/confirm.json and removes the worktree.
"""
import json
import os
import subprocess
import sys
import time
import xml.etree.ElementTree as ET


def sh(cmd, cwd=None, env=None, timeout=3600):
    r = subprocess.run(cmd, shell=True, cwd=cwd, env=env, capture_output=True, text=True, timeout=timeout)
    return r.returncode, (r.stdout + r.stderr)


def main():
    sid = sys.argv[1]
    skip = "--skip-tests" in sys.argv
    out = "/tmp/seed_out/%s" % sid
    wt = "/tmp/confirm_%s" % sid
    sh("git -C /repo worktree remove --force %s" % wt)
    rc, o = sh("git -C /repo worktree add -q --detach %s HEAD" % wt)
    res = {"id": sid, "repo_head": sh("git -C /repo rev-parse --short HEAD")[1].strip()}
    try:
        env = dict(os.environ, PYTHONPATH=wt, MPLBACKEND="Agg")
        demo = os.path.join(out, "demo.py")
        rc0, o0 = sh("/venv/bin/python %s" % demo, cwd=wt, env=env, timeout=1800)
        res["demo_without_change"] = {"exit": rc0, "tail": o0[-600:]}
        rc, o = sh("git -C %s apply %s/patch.diff" % (wt, out))
        res["patch_applies"] = rc == 0
        if rc != 0:
            res["patch_error"] = o[-400:]
        rc1, o1 = sh("/venv/bin/python %s" % demo, cwd=wt, env=env, timeout=1800)
        res["demo_with_change"] = {"exit": rc1, "tail": o1[-800:]}
        rc, o = sh("/venv/bin/python -c 'import atomica; print(atomica.__file__)'", cwd=wt, env=env)
        res["import_ok"] = rc == 0 and wt in o
        if not skip:
            ids = json.load(open("/root/.vp/BASELINE.json"))["stable_pass"]
            t0 = time.time()
            junit = os.path.join(out, "confirm_junit.xml")
            rc, o = sh("/venv/bin/python -m pytest -q -p no:cacheprovider --timeout=900 --continue-on-collection-errors --junitxml=%s" % junit, cwd=wt, env=env, timeout=3000)
            passed = set()
            try:
                for tc in ET.parse(junit).iter("testcase"):
                    if not any(c.tag in ("failure", "error", "skipped") for c in tc):
                        passed.add(tc.get("classname") + "::" + tc.get("name"))
            except Exception as e:
                res["junit_error"] = repr(e)
            missing = sorted(set(ids) - passed)
            res["tests"] = {"baseline_passing": len(set(ids) & passed), "baseline_total": len(ids), "missing": missing, "wall_s": round(time.time() - t0)}
        res["confirmed"] = bool(res.get("patch_applies") and rc0 == 0 and rc1 != 0 and res.get("import_ok") and (skip or not res["tests"]["missing"]))
    finally:
        sh("git -C /repo worktree remove --force %s" % wt)
    json.dump(res, open(os.path.join(out, "confirm.json"), "w"), indent=1)
    print(json.dumps({k: v for k, v in res.items() if k not in ("demo_with_change", "demo_without_change")}, indent=1))
    print("demo without:", res["demo_without_change"]["exit"], "| demo with:", res.get("demo_with_change", {}).get("exit"))


if __name__ == "__main__":
    main()
