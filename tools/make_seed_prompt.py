#!/venv/bin/python
"""
tools/make_seed_prompt.py <Cxx> <run id>   (triage tool, not a check)
Prepares one seeded-change task for a fresh sub-agent: a scratch worktree /tmp/wt_<run id> of /repo HEAD, the output
directory /tmp/seed_out/<run id>/ and the prompt /tmp/seed_out/<run id>_prompt.txt.  The prompt contains only the text
of the property (statement + quantifier) and, so that successive rounds differ, one line per change already stored for
that property under seeded/ ("already explored").  Nothing else from /verif is given to the agent.
"""
import glob
import json
import os
import subprocess
import sys

HERE = os.path.dirname(os.path.dirname(os.path.abspath(__file__)))


def main():
    prop, rid = sys.argv[1], sys.argv[2]
    p = [json.loads(l) for l in open(os.path.join(HERE, "properties.jsonl")) if l.strip()]
    p = [x for x in p if x["id"] == prop][0]
    text = "Property %s: %s\n\nStatement: %s\n\nQuantified over: %s" % (prop, p["title"], p["statement"], p["quantifier"]["text"])
    seen = []
    for d in sorted(glob.glob(os.path.join(HERE, "seeded", "S*"))):
        m = json.load(open(os.path.join(d, "meta.json")))
        if m["breaks_property"] == prop:
            files = sorted({l.split(" b/")[-1].strip() for l in open(os.path.join(d, "patch.diff")) if l.startswith("diff --git")})
            funcs = sorted({l.split("@@")[-1].strip() for l in open(os.path.join(d, "patch.diff")) if l.startswith("@@") and l.count("@@") >= 2 and l.split("@@")[-1].strip()})
            seen.append("- %s (%s; %s)" % (os.path.basename(d)[4:].replace("-", " "), ", ".join(files), "; ".join(funcs)[:160]))
    avoid = ""
    if seen:
        avoid = "Changes of the following kind have already been explored by others - choose a DIFFERENT mechanism, in a different function:\n" + "\n".join(seen) + "\n\n"
    wt = "/tmp/wt_%s" % rid
    subprocess.run(["git", "-C", "/repo", "worktree", "remove", "--force", wt], capture_output=True)
    subprocess.check_call(["git", "-C", "/repo", "worktree", "add", "-q", "--detach", wt, "HEAD"])
    os.makedirs("/tmp/seed_out/%s" % rid, exist_ok=True)
    t = open(os.path.join(HERE, "tools", "seed_prompt_template.txt")).read()
    t = t.replace("__PROPERTY__", text).replace("__AVOID__", avoid).replace("__WT__", wt).replace("__ID__", rid)
    open("/tmp/seed_out/%s_prompt.txt" % rid, "w").write(t)
    print(t)


if __name__ == "__main__":
    main()
