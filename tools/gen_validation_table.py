#!/venv/bin/python
"""
tools/gen_validation_table.py  (one-off / maintenance tool, not a check)
Lists every `raise <dedicated invalid-input error>` site of the loader modules with the condition under which it is
reached (the enclosing if / elif / else tests and earlier early exits of the same function), for review by reading and
freezing as atomica_sa/rules/tables/c18_validation.json.  The rule R18f then compares the tree with that table.
"""
import ast
import json
import os
import sys

HERE = os.path.dirname(os.path.dirname(os.path.abspath(__file__)))
sys.path.insert(0, HERE)
from atomica_sa.core.loader import Repo, own_nodes  # noqa: E402
from atomica_sa.rules.c18 import validation_sites  # noqa: E402


def main():
    repo = Repo.load(sys.argv[1] if len(sys.argv) > 1 else "/repo")
    out = validation_sites(repo)
    json.dump(out, sys.stdout, indent=1)
    sys.stderr.write("%d sites\n" % len(out))


if __name__ == "__main__":
    main()
