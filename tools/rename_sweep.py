#!/venv/bin/python
"""
False-alarm finder (triage tool, NOT a check): rename locals of the functions the rules look at and verify every check stays silent.

  tools/rename_sweep.py [--max-per-func N] [--jobs J] [--out FILE] [--pair]

For every function named in an obligation site of evidence/*.json, up to N locals (frozen list rules/tables/locals.json)
are renamed one at a time (token-level, variable uses only) in a scratch copy of /repo/atomica, and the quick checks of the
properties whose evidence mentions the function are run with --repo.  With --pair two locals are renamed at once.
Any exit code other than 0 is a false alarm of the machinery (a renamed local does not change behaviour).
"""
import glob
import json
import multiprocessing as mp
import os
import shutil
import subprocess
import sys
import tempfile

HERE = os.path.dirname(os.path.dirname(os.path.abspath(__file__)))
sys.path.insert(0, HERE)
from atomica_sa.selftest.runner import rename_local_tokens, _func_span as func_span  # noqa: E402


def run_one(job):
    idx, relpath, qn, names, props = job
    scratch = tempfile.mkdtemp(prefix="rensw_")
    try:
        shutil.copytree("/repo/atomica", os.path.join(scratch, "atomica"), ignore=shutil.ignore_patterns("*.xlsx", "__pycache__", "library"))
        path = os.path.join(scratch, relpath)
        src = open(path).read()
        span = func_span(src, qn)
        if span is None:
            return dict(idx=idx, file=relpath, func=qn, names=names, status="nofunc")
        lines = src.split("\n")
        seg = "\n".join(lines[span[0] - 1 : span[1]])
        for n in names:
            seg, cnt = rename_local_tokens(seg, n, n + "_rn")
        new = "\n".join(lines[: span[0] - 1]) + ("\n" if span[0] > 1 else "") + seg + "\n" + "\n".join(lines[span[1] :])
        try:
            compile(new, path, "exec")
        except SyntaxError:
            return dict(idx=idx, file=relpath, func=qn, names=names, status="nocompile")
        open(path, "w").write(new)
        bad = []
        for p in props:
            r = subprocess.run([os.path.join(HERE, "check"), p, "--repo", scratch, "--no-evidence"], capture_output=True, text=True)
            if r.returncode != 0:
                lines_ = [l.strip()[:200] for l in r.stdout.splitlines() if l.startswith(("  FINDING", "ANALYSIS-ERROR"))]
                bad.append((p, r.returncode, lines_[:3]))
        return dict(idx=idx, file=relpath, func=qn, names=names, status="alarm" if bad else "silent", bad=bad)
    finally:
        shutil.rmtree(scratch, ignore_errors=True)


def main():
    args = sys.argv[1:]
    maxper, jobs, out, pair = 3, 14, "/tmp/work/rensweep.json", False
    i = 0
    while i < len(args):
        if args[i] == "--max-per-func":
            maxper = int(args[i + 1]); i += 2
        elif args[i] == "--jobs":
            jobs = int(args[i + 1]); i += 2
        elif args[i] == "--out":
            out = args[i + 1]; i += 2
        elif args[i] == "--pair":
            pair = True; i += 1
        else:
            i += 1
    table = json.load(open(os.path.join(HERE, "atomica_sa", "rules", "tables", "locals.json")))
    funcs = {}  # (relpath, qn) -> props
    for f in sorted(glob.glob(os.path.join(HERE, "evidence", "C*.json"))):
        ev = json.load(open(f))
        prop = os.path.basename(f)[:-5]
        text = json.dumps(ev)
        for mod, tab in table.items():
            for qn in tab:
                if ("atomica/%s.py:" % mod) in text and (" %s\"" % qn.split("@")[0]) in text:
                    funcs.setdefault(("atomica/%s.py" % mod, qn.split("@")[0]), set()).add(prop)
    work = []
    for (relpath, qn), props in sorted(funcs.items()):
        mod = os.path.basename(relpath)[:-3]
        locs = sorted(table[mod].get(qn, {}))
        if not locs:
            continue
        step = max(1, len(locs) // maxper)
        pick = locs[::step][:maxper]
        if pair:
            if len(locs) >= 2:
                work.append((len(work), relpath, qn, [locs[0], locs[-1]], sorted(props)))
        else:
            for n in pick:
                work.append((len(work), relpath, qn, [n], sorted(props)))
    print("%d variants over %d functions" % (len(work), len(funcs)), flush=True)
    with mp.Pool(jobs) as pool:
        res = []
        for r in pool.imap_unordered(run_one, work):
            res.append(r)
            if len(res) % 50 == 0:
                print("  %d/%d" % (len(res), len(work)), flush=True)
    res.sort(key=lambda r: r["idx"])
    os.makedirs(os.path.dirname(out), exist_ok=True)
    json.dump(res, open(out, "w"), indent=1)
    by = {}
    for r in res:
        by[r["status"]] = by.get(r["status"], 0) + 1
    print(by)
    for r in res:
        if r["status"] == "alarm":
            print("ALARM %s %s %s -> %s" % (r["file"], r["func"], r["names"], r["bad"]))


if __name__ == "__main__":
    main()
