#!/venv/bin/python
"""onemut.py <relpath> <old> <new> [Cxx ...] : apply one textual edit to a scratch copy and run checks"""
import sys, os, shutil, subprocess, tempfile
rel, old, new = sys.argv[1:4]
props = sys.argv[4:]
scratch = tempfile.mkdtemp(prefix="onemut_")
try:
    shutil.copytree("/repo/atomica", scratch + "/atomica", ignore=shutil.ignore_patterns("*.xlsx", "__pycache__", "library"))
    p = os.path.join(scratch, rel)
    s = open(p).read()
    assert s.count(old) >= 1, "anchor not found"
    open(p, "w").write(s.replace(old, new, 1))
    for pr in props:
        r = subprocess.run(["/verif/check", pr, "--repo", scratch, "--no-evidence"], capture_output=True, text=True)
        print(pr, "rc=%d" % r.returncode)
        for l in r.stdout.splitlines():
            if l.startswith(("ANALYSIS", "  FINDING", "          ")):
                print("   ", l[:260])
finally:
    shutil.rmtree(scratch, ignore_errors=True)
