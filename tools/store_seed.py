#!/venv/bin/python
"""Copy a confirmed seeded change from /tmp/seed_out/<id> into /verif/seeded/<name>/ with meta.json (needs confirm.json)."""
import json
import os
import shutil
import subprocess
import sys

HERE = os.path.dirname(os.path.dirname(os.path.abspath(__file__)))


def main():
    sid, name, prop, initially = sys.argv[1], sys.argv[2], sys.argv[3], sys.argv[4]
    needs = sys.argv[5]
    src = "/tmp/seed_out/%s" % sid
    dst = os.path.join(HERE, "seeded", name)
    os.makedirs(dst, exist_ok=True)
    for f in ("patch.diff", "demo.py", "notes.md"):
        shutil.copy(os.path.join(src, f), os.path.join(dst, f))
    conf = json.load(open(os.path.join(src, "confirm.json")))
    assert conf["confirmed"], "not confirmed"
    r = subprocess.run([os.path.join(HERE, "tools", "try_seed.py"), dst], capture_output=True, text=True)
    lines = r.stdout.strip().splitlines()
    caught = lines[-1].replace("caught by: ", "") if lines else ""
    findings = [l.strip() for l in lines if l.startswith("    R")]
    meta = {
        "id": name,
        "breaks_property": prop,
        "origin": "written by an independent sub-agent that was given only the property text and its own scratch worktree (nothing from /verif)",
        "needs_to_manifest": needs,
        "confirmed_by": {
            "tool": "tools/confirm_seed.py (fresh worktree of /repo HEAD %s under /tmp, removed afterwards)" % conf["repo_head"],
            "patch_applies": conf["patch_applies"],
            "demo_exit_without_change": conf["demo_without_change"]["exit"],
            "demo_exit_with_change": conf["demo_with_change"]["exit"],
            "baseline_tests_with_change": "%d/%d baseline-passing tests pass" % (conf["tests"]["baseline_passing"], conf["tests"]["baseline_total"]),
            "how_to_run_demo": "git -C /repo worktree add --detach /tmp/w HEAD; git -C /tmp/w apply /verif/seeded/%s/patch.diff; cd /tmp/w && PYTHONPATH=/tmp/w /venv/bin/python /verif/seeded/%s/demo.py; git -C /repo worktree remove --force /tmp/w" % (name, name),
        },
        "caught_before_strengthening": initially,
        "caught_now_by": caught,
        "reports": findings,
        "how_checked": "tools/try_seed.py /verif/seeded/%s  (scratch copy of /repo/atomica + patch, all 20 quick checks with --repo)" % name,
    }
    json.dump(meta, open(os.path.join(dst, "meta.json"), "w"), indent=1)
    print(name, "->", caught)


if __name__ == "__main__":
    main()
