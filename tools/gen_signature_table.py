#!/venv/bin/python
"""Freeze, per function of /repo/atomica, the parameters that its body reads today (tables/signatures.json).

The table is the reference for the shared rule `argument_use_rule` (rules/shapes.py): a parameter that is read today and
is still in the signature must still be read.  Parameters that are not read today (interface stubs, overridden hooks) are
simply absent from the table, so they are never judged.  Run by hand after a reviewed change of /repo; never at check time.
"""
import ast
import glob
import json
import os
import sys

HERE = os.path.dirname(os.path.dirname(os.path.abspath(__file__)))
sys.path.insert(0, HERE)
from atomica_sa.rules.shapes import functions_of, params_read  # noqa: E402

out = {}
for f in sorted(glob.glob("/repo/atomica/*.py")):
    mod = os.path.basename(f)[:-3]
    tree = ast.parse(open(f).read())
    tab = {}
    for qn, fn in functions_of(tree):
        read = params_read(fn)
        if read:
            tab[qn] = read
    out[mod] = tab
json.dump(out, open(os.path.join(HERE, "atomica_sa", "rules", "tables", "signatures.json"), "w"), indent=0, sort_keys=True)
print(sum(len(v) for v in out.values()), "functions,", sum(len(p) for v in out.values() for p in v.values()), "parameters")
