#!/venv/bin/python
"""Regenerate MANIFEST.json from the rule modules (EXPLANATION strings) and the table below."""
import importlib
import json
import os
import subprocess
import sys

HERE = os.path.dirname(os.path.dirname(os.path.abspath(__file__)))
sys.path.insert(0, HERE)

TECH = {
    "C01": "who-may-write + sibling agreement + CFG ordering over typed AST",
    "C02": "guard-shape / dominance / guarded-division rules on AST+CFG",
    "C03": "dimension algebra (abstract interpretation) + discretisation taint",
    "C04": "finite order-region tables, CFG ordering, cross-module constant agreement",
    "C05": "discretisation taint, sibling feature agreement, guard and index rules",
    "C06": "CFG stage ordering, def-use taint of calibration factors, order-region tables",
    "C07": "CFG dominance of refusal guards, sibling agreement",
    "C08": "call-graph reachability + must-mutate effect summaries + unlink/relink symmetry",
    "C09": "guard algebra over order regions, call-site method rule, causal-index rule",
    "C10": "capture/apply symmetry (sibling agreement), CFG ordering",
    "C11": "CFG post-dominance, dimension algebra, monotonicity lattice (abstract interpretation)",
    "C12": "def-use ordering agreement, exhaustive dispatch, CFG ordering (thin)",
    "C13": "call-argument agreement between siblings, dimension algebra, control dependence",
    "C14": "CFG dominance of bound/sum checks and solver status, must-pass-through",
    "C15": "CFG with exception edges (restore on all exits), effect summaries, typed comparison rule",
    "C16": "cache-coherence post-dominance, name-sort key discipline, reaching definitions in handlers, writer/reader tables",
    "C17": "call-graph closure to RNG draws + reseed dominance, attribute definedness, effect summaries",
    "C18": "format-arity / typed attribute lint, escaping-raise analysis over call graph and handlers, dead-branch value sets",
    "C19": "node-kind abstract interpreter of the validator, exhaustive over the grammar; CFG dominance",
    "C20": "loop-carried default rule, alias-then-augment via reaching definitions, effect summaries",
}

NOTE = "Static necessary conditions only: the rules decide clauses whose truth is visible in the code on every path; numeric behaviour is not decided (see DESIGN.md section 4, 'Not decided'). Trusted base: CPython ast, networkx dominators/toposort, the idiom / dimension / seed-type tables in /verif/atomica_sa, absence of monkey-patching."


def main():
    props = [json.loads(l) for l in open(os.path.join(HERE, "properties.jsonl"))]
    checks = []
    for p in props:
        pid = p["id"]
        mod = importlib.import_module("atomica_sa.rules.%s" % pid.lower())
        checks.append(
            {
                "property_id": pid,
                "quick_cmd": "/venv/bin/python /verif/check %s --tier quick" % pid,
                "thorough_cmd": "/venv/bin/python /verif/check %s --tier thorough" % pid,
                "evidence_file": "/verif/evidence/%s.json" % pid,
                "replay_cmd_template": "/venv/bin/python /verif/check --replay {path}",
                "engine": "atomica_sa",
                "level_claimed": {"category": "other", "text": mod.EXPLANATION, "design_ref": "DESIGN.md section 4, %s" % pid},
                "level_note": NOTE,
                "technique": "static analysis: " + TECH[pid],
            }
        )
    src = subprocess.check_output(["git", "-C", "/repo", "log", "--format=%H", "447ed3b..HEAD"]).decode().split()
    m = {
        "version": 1,
        "setup_cmd": "/venv/bin/python /verif/check --selfcheck",
        "hooks": {
            "guard": "ATOMICA_VERIF",
            "enable": "no hooks exist: the checkers parse /repo/atomica/*.py as they are (ast only, nothing is imported or run); the guard name is reserved and unused",
            "baseline_off_cmd": "cd /repo && /venv/bin/python -m pytest -ra -q -p no:cacheprovider --timeout=900 --continue-on-collection-errors",
            "source_commits": [],
            "add_only": True,
        },
        "engines": [
            {"name": "atomica_sa", "path": "/verif/atomica_sa", "serves_properties": [p["id"] for p in props], "kind_free_text": "repository-specific static analysis: loader/symbol table, statement CFG with exception edges and dominators, reaching definitions, table-driven type facts, call graph, must-mutate effect summaries, dimension algebra, order-region evaluator, monotonicity lattice, validator node-kind interpreter; both-ways self-test (mutants/twins) in the thorough tier"}
        ],
        "checks": checks,
        "notes": "All 20 properties are claimed through necessary-condition clauses decided statically (DESIGN.md). 98 findings on the pinned tree were genuine defects; all are repaired by %d unguarded 'fix:' commits in /repo (listed in known_findings.json under 'fixed'); no known findings remain. fix commits: " % len(src) + " ".join(s[:7] for s in reversed(src)),
        "not_applicable": [],
    }
    json.dump(m, open(os.path.join(HERE, "MANIFEST.json"), "w"), indent=1)
    print("MANIFEST.json written: %d checks" % len(checks))


if __name__ == "__main__":
    main()
