#!/venv/bin/python
"""
Blind-spot finder for the checkers (triage tool, NOT a check and not registered in MANIFEST.json).

  tools/mutation_sweep.py <relpath>:<qualname-prefix> [...] [--max-per-func N] [--jobs J] [--out FILE] [--props C01,C02]

For every function whose qualified name starts with one of the prefixes, generic syntactic mutants are generated
(comparison / arithmetic operator swaps, negated conditions, deleted statements, 0<->1, dropped copies, min<->max),
each is written to a scratch copy of /repo/atomica under /tmp, and the quick checks of the properties anchored in
that file are run with --repo.  Survivors (no check exits 1) are listed for reading: a survivor is either an
equivalent / out-of-scope mutant or a statement no rule constrains.  Nothing is executed from atomica.
"""
import ast
import json
import multiprocessing as mp
import os
import shutil
import subprocess
import sys
import tempfile

HERE = os.path.dirname(os.path.dirname(os.path.abspath(__file__)))
sys.path.insert(0, HERE)
from atomica_sa.selftest.generic import qualnames, mutants_of, apply  # noqa: E402


def props_for(relpath):
    props = []
    for l in open(os.path.join(HERE, "properties.jsonl")):
        if l.strip():
            p = json.loads(l)
            if relpath in p["anchors"]["files"]:
                props.append(p["id"])
    return props


def run_one(job):
    idx, relpath, qn, lineno, kind, pos, repl, descr, props = job
    scratch = tempfile.mkdtemp(prefix="mutsw_")
    try:
        shutil.copytree("/repo/atomica", os.path.join(scratch, "atomica"), ignore=shutil.ignore_patterns("*.xlsx", "__pycache__", "library"))
        path = os.path.join(scratch, relpath)
        src = open(path).read()
        new = apply(src, pos, repl)
        try:
            ast.parse(new)
        except SyntaxError:
            return dict(idx=idx, file=relpath, func=qn, line=lineno, kind=kind, descr=descr, status="nocompile")
        open(path, "w").write(new)
        caught, errs = [], []
        for p in props:
            r = subprocess.run([os.path.join(HERE, "check"), p, "--repo", scratch, "--no-evidence"], capture_output=True, text=True)
            if r.returncode == 1:
                rules = sorted({l.split()[1] for l in r.stdout.splitlines() if l.startswith("FINDING")})
                caught.append("%s:%s" % (p, ",".join(rules)))
            elif r.returncode != 0:
                errs.append(p)
        return dict(idx=idx, file=relpath, func=qn, line=lineno, kind=kind, descr=descr, status="caught" if caught else ("exit2" if errs else "survived"), caught=caught, exit2=errs)
    finally:
        shutil.rmtree(scratch, ignore_errors=True)


def main():
    args = sys.argv[1:]
    maxper, jobs, out, only = 8, 8, "/tmp/work/mutsweep.json", None
    targets = []
    i = 0
    while i < len(args):
        if args[i] == "--max-per-func":
            maxper = int(args[i + 1]); i += 2
        elif args[i] == "--jobs":
            jobs = int(args[i + 1]); i += 2
        elif args[i] == "--out":
            out = args[i + 1]; i += 2
        elif args[i] == "--props":
            only = args[i + 1].split(","); i += 2
        else:
            targets.append(args[i]); i += 1
    work = []
    for t in targets:
        relpath, prefix = t.split(":")
        src = open(os.path.join("/repo", relpath)).read()
        tree = ast.parse(src)
        props = only or props_for(relpath)
        for qn, fn in qualnames(tree):
            if not qn.startswith(prefix):
                continue
            ms = list(mutants_of(src, fn))
            # spread deterministically over the function and over kinds
            if len(ms) > maxper:
                step = len(ms) / float(maxper)
                ms = [ms[int(k * step)] for k in range(maxper)]
            for m in ms:
                work.append((len(work), relpath, qn) + m + (props,))
    print("%d mutants" % len(work), flush=True)
    with mp.Pool(jobs) as pool:
        res = []
        for r in pool.imap_unordered(run_one, work):
            res.append(r)
            if len(res) % 20 == 0:
                print("  %d/%d" % (len(res), len(work)), flush=True)
    res.sort(key=lambda r: r["idx"])
    os.makedirs(os.path.dirname(out), exist_ok=True)
    json.dump(res, open(out, "w"), indent=1)
    by = {}
    for r in res:
        by[r["status"]] = by.get(r["status"], 0) + 1
    print(by)
    for r in res:
        if r["status"] in ("survived", "exit2"):
            print("%-8s %s:%d %s [%s] %s %s" % (r["status"], r["file"], r["line"], r["func"], r["kind"], r["descr"], r.get("exit2") or ""))


if __name__ == "__main__":
    main()
