#!/venv/bin/python
"""
Blind-spot finder for the checkers (triage tool, NOT a check and not registered in MANIFEST.json).

  tools/mutation_sweep.py <relpath>:<qualname-prefix> [...] [--max-per-func N] [--jobs J] [--out FILE] [--props C01,C02]

For every function whose qualified name starts with one of the prefixes, generic syntactic mutants are generated
(comparison / arithmetic operator swaps, negated conditions, deleted statements, 0<->1, dropped copies, min<->max),
each is written to a scratch copy of /repo/atomica under /tmp, and the quick checks of the properties anchored in
that file are run with --repo.  Survivors (no check exits 1) are listed for reading: a survivor is either an
equivalent / out-of-scope mutant or a statement no rule constrains.  Nothing is executed from atomica.
"""
import ast
import json
import multiprocessing as mp
import os
import shutil
import subprocess
import sys
import tempfile

HERE = os.path.dirname(os.path.dirname(os.path.abspath(__file__)))
CMP = {ast.Lt: "<=", ast.LtE: "<", ast.Gt: ">=", ast.GtE: ">", ast.Eq: "!=", ast.NotEq: "==", ast.Is: "is not", ast.IsNot: "is", ast.In: "not in", ast.NotIn: "in"}
BIN = {ast.Add: "-", ast.Sub: "+", ast.Mult: "/", ast.Div: "*"}


def qualnames(tree):
    out = []

    def rec(node, prefix):
        for ch in ast.iter_child_nodes(node):
            if isinstance(ch, (ast.FunctionDef, ast.AsyncFunctionDef)):
                out.append((prefix + ch.name, ch))
                rec(ch, prefix + ch.name + ".")
            elif isinstance(ch, ast.ClassDef):
                rec(ch, prefix + ch.name + ".")
            else:
                rec(ch, prefix)

    rec(tree, "")
    return out


def seg(src_lines, node):
    return ast.get_source_segment("".join(src_lines), node)


def in_message(node, parents):
    p = parents.get(node)
    while p is not None and not isinstance(p, (ast.FunctionDef, ast.AsyncFunctionDef)):
        if isinstance(p, (ast.Raise, ast.JoinedStr)):
            return True
        if isinstance(p, ast.Assert) and node is not p.test and not any(node is x for x in ast.walk(p.test)):
            return True
        if isinstance(p, ast.Call) and ast.unparse(p.func).startswith(("logger.", "print", "warnings.")):
            return True
        if isinstance(p, ast.Assign) and any(isinstance(t, ast.Name) and t.id in ("message", "msg") for t in p.targets):
            return True
        p = parents.get(p)
    return False


def mutants_of(src, fn):
    """yield (lineno, kind, (l0, c0, l1, c1), replacement, descr)"""
    parents = {}
    for n in ast.walk(fn):
        for ch in ast.iter_child_nodes(n):
            parents[ch] = n
    full = src
    for n in ast.walk(fn):
        if n is not fn and isinstance(n, (ast.FunctionDef, ast.AsyncFunctionDef, ast.Lambda)):
            continue
        if not hasattr(n, "lineno") or in_message(n, parents):
            continue
        pos = (n.lineno, n.col_offset, n.end_lineno, n.end_col_offset)
        text = ast.get_source_segment(full, n)
        if text is None:
            continue
        if isinstance(n, ast.Compare) and len(n.ops) == 1 and type(n.ops[0]) in CMP:
            l, r = ast.get_source_segment(full, n.left), ast.get_source_segment(full, n.comparators[0])
            yield n.lineno, "cmp", pos, "%s %s %s" % (l, CMP[type(n.ops[0])], r), "%s -> %s" % (text, CMP[type(n.ops[0])])
        elif isinstance(n, ast.BinOp) and type(n.op) in BIN:
            if any(isinstance(x, ast.Constant) and isinstance(x.value, str) for x in (n.left, n.right)):
                continue
            l, r = ast.get_source_segment(full, n.left), ast.get_source_segment(full, n.right)
            yield n.lineno, "arith", pos, "(%s %s %s)" % (l, BIN[type(n.op)], r), "%s -> %s" % (text[:60], BIN[type(n.op)])
        elif isinstance(n, (ast.If, ast.While)) or isinstance(n, ast.IfExp):
            t = n.test
            tp = (t.lineno, t.col_offset, t.end_lineno, t.end_col_offset)
            tt = ast.get_source_segment(full, t)
            yield t.lineno, "negate", tp, "(not (%s))" % tt, "if %s -> negated" % tt[:60]
        elif isinstance(n, (ast.Assign, ast.AugAssign)) or (isinstance(n, ast.Expr) and isinstance(n.value, ast.Call)):
            if isinstance(n, ast.Expr) and ast.unparse(n.value.func).startswith(("logger.", "print", "super")):
                continue
            if "\n" in text:
                continue
            yield n.lineno, "delete", pos, "pass", "delete `%s`" % text[:70]
            if isinstance(n, ast.AugAssign) and isinstance(n.op, (ast.Add, ast.Sub)):
                tg, v = ast.get_source_segment(full, n.target), ast.get_source_segment(full, n.value)
                yield n.lineno, "aug", pos, "%s %s= %s" % (tg, "-" if isinstance(n.op, ast.Add) else "+", v), "`%s` sign flipped" % text[:60]
        elif isinstance(n, ast.Constant) and type(n.value) in (int, float) and n.value in (0, 1) and not isinstance(parents.get(n), (ast.keyword,)):
            yield n.lineno, "const", pos, "1" if n.value == 0 else "0", "const %r -> %s in `%s`" % (n.value, "1" if n.value == 0 else "0", (ast.get_source_segment(full, parents.get(n)) or "")[:50])
        elif isinstance(n, ast.Call) and isinstance(n.func, ast.Attribute) and n.func.attr == "copy" and not n.args:
            yield n.lineno, "copy", pos, ast.get_source_segment(full, n.func.value), "drop .copy() in `%s`" % text[:60]
        elif isinstance(n, ast.Call) and ast.unparse(n.func) in ("sc.dcp", "copy.deepcopy", "dcp", "np.copy") and len(n.args) == 1:
            yield n.lineno, "copy", pos, ast.get_source_segment(full, n.args[0]), "drop deep copy in `%s`" % text[:60]
        elif isinstance(n, ast.Call) and isinstance(n.func, ast.Name) and n.func.id in ("min", "max"):
            yield n.lineno, "minmax", (n.func.lineno, n.func.col_offset, n.func.end_lineno, n.func.end_col_offset), "max" if n.func.id == "min" else "min", "%s -> swapped" % text[:60]
        elif isinstance(n, (ast.Continue, ast.Break)):
            yield n.lineno, "flow", pos, "pass", "`%s` -> pass" % text
        elif isinstance(n, ast.Return) and n.value is None:
            yield n.lineno, "flow", pos, "pass", "bare return -> pass"


def apply(src, pos, repl):
    lines = src.splitlines(keepends=True)
    l0, c0, l1, c1 = pos
    # col offsets are utf8 byte offsets; the sources are ASCII in the functions we touch, fall back to bytes otherwise
    first, last = lines[l0 - 1], lines[l1 - 1]
    fb, lb = first.encode(), last.encode()
    new = fb[:c0].decode() + repl + lb[c1:].decode()
    return "".join(lines[: l0 - 1]) + new + "".join(lines[l1:])


def props_for(relpath):
    props = []
    for l in open(os.path.join(HERE, "properties.jsonl")):
        if l.strip():
            p = json.loads(l)
            if relpath in p["anchors"]["files"]:
                props.append(p["id"])
    return props


def run_one(job):
    idx, relpath, qn, lineno, kind, pos, repl, descr, props = job
    scratch = tempfile.mkdtemp(prefix="mutsw_")
    try:
        shutil.copytree("/repo/atomica", os.path.join(scratch, "atomica"), ignore=shutil.ignore_patterns("*.xlsx", "__pycache__", "library"))
        path = os.path.join(scratch, relpath)
        src = open(path).read()
        new = apply(src, pos, repl)
        try:
            ast.parse(new)
        except SyntaxError:
            return dict(idx=idx, file=relpath, func=qn, line=lineno, kind=kind, descr=descr, status="nocompile")
        open(path, "w").write(new)
        caught, errs = [], []
        for p in props:
            r = subprocess.run([os.path.join(HERE, "check"), p, "--repo", scratch, "--no-evidence"], capture_output=True, text=True)
            if r.returncode == 1:
                rules = sorted({l.split()[1] for l in r.stdout.splitlines() if l.startswith("FINDING")})
                caught.append("%s:%s" % (p, ",".join(rules)))
            elif r.returncode != 0:
                errs.append(p)
        return dict(idx=idx, file=relpath, func=qn, line=lineno, kind=kind, descr=descr, status="caught" if caught else ("exit2" if errs else "survived"), caught=caught, exit2=errs)
    finally:
        shutil.rmtree(scratch, ignore_errors=True)


def main():
    args = sys.argv[1:]
    maxper, jobs, out, only = 8, 8, "/tmp/work/mutsweep.json", None
    targets = []
    i = 0
    while i < len(args):
        if args[i] == "--max-per-func":
            maxper = int(args[i + 1]); i += 2
        elif args[i] == "--jobs":
            jobs = int(args[i + 1]); i += 2
        elif args[i] == "--out":
            out = args[i + 1]; i += 2
        elif args[i] == "--props":
            only = args[i + 1].split(","); i += 2
        else:
            targets.append(args[i]); i += 1
    work = []
    for t in targets:
        relpath, prefix = t.split(":")
        src = open(os.path.join("/repo", relpath)).read()
        tree = ast.parse(src)
        props = only or props_for(relpath)
        for qn, fn in qualnames(tree):
            if not qn.startswith(prefix):
                continue
            ms = list(mutants_of(src, fn))
            # spread deterministically over the function and over kinds
            if len(ms) > maxper:
                step = len(ms) / float(maxper)
                ms = [ms[int(k * step)] for k in range(maxper)]
            for m in ms:
                work.append((len(work), relpath, qn) + m + (props,))
    print("%d mutants" % len(work), flush=True)
    with mp.Pool(jobs) as pool:
        res = []
        for r in pool.imap_unordered(run_one, work):
            res.append(r)
            if len(res) % 20 == 0:
                print("  %d/%d" % (len(res), len(work)), flush=True)
    res.sort(key=lambda r: r["idx"])
    os.makedirs(os.path.dirname(out), exist_ok=True)
    json.dump(res, open(out, "w"), indent=1)
    by = {}
    for r in res:
        by[r["status"]] = by.get(r["status"], 0) + 1
    print(by)
    for r in res:
        if r["status"] in ("survived", "exit2"):
            print("%-8s %s:%d %s [%s] %s %s" % (r["status"], r["file"], r["line"], r["func"], r["kind"], r["descr"], r.get("exit2") or ""))


if __name__ == "__main__":
    main()
