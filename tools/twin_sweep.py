#!/venv/bin/python
"""
False-alarm finder (triage tool, NOT a check): apply generic behaviour-preserving rewrites (selftest/generic_twins.py) to the
functions the rules inspect and verify every check stays silent.

  tools/twin_sweep.py [file:QualPrefix ...] [--max-per-func N] [--jobs J] [--out FILE] [--kinds a,b]

Without targets: every function named in an obligation (other than the R<nn>u / R<nn>v shape rules) of evidence/*.json.
"""
import ast
import glob
import json
import multiprocessing as mp
import os
import shutil
import subprocess
import sys
import tempfile

HERE = os.path.dirname(os.path.dirname(os.path.abspath(__file__)))
sys.path.insert(0, HERE)
from atomica_sa.selftest.generic import qualnames, apply  # noqa: E402
from atomica_sa.selftest.generic_twins import twins_of  # noqa: E402


def run_one(job):
    idx, relpath, qn, lineno, kind, pos, repl, descr, props = job
    scratch = tempfile.mkdtemp(prefix="twsw_")
    try:
        shutil.copytree("/repo/atomica", os.path.join(scratch, "atomica"), ignore=shutil.ignore_patterns("*.xlsx", "__pycache__", "library"))
        path = os.path.join(scratch, relpath)
        src = open(path).read()
        new = apply(src, pos, repl)
        try:
            ast.parse(new)
        except SyntaxError as e:
            return dict(idx=idx, file=relpath, func=qn, line=lineno, kind=kind, descr=descr, status="nocompile", err=str(e))
        open(path, "w").write(new)
        bad = []
        for p in props:
            r = subprocess.run([os.path.join(HERE, "check"), p, "--repo", scratch, "--no-evidence"], capture_output=True, text=True)
            if r.returncode != 0:
                ls = [l.strip()[:220] for l in r.stdout.splitlines() if l.startswith(("  FINDING", "ANALYSIS-ERROR"))]
                bad.append((p, r.returncode, ls[:3]))
        return dict(idx=idx, file=relpath, func=qn, line=lineno, kind=kind, descr=descr, status="alarm" if bad else "silent", bad=bad, repl=repl[:300])
    finally:
        shutil.rmtree(scratch, ignore_errors=True)


def main():
    args = sys.argv[1:]
    maxper, jobs, out, kinds = 8, 14, "/tmp/work/twinsweep.json", None
    targets = []
    i = 0
    while i < len(args):
        if args[i] == "--max-per-func":
            maxper = int(args[i + 1]); i += 2
        elif args[i] == "--jobs":
            jobs = int(args[i + 1]); i += 2
        elif args[i] == "--out":
            out = args[i + 1]; i += 2
        elif args[i] == "--kinds":
            kinds = set(args[i + 1].split(",")); i += 2
        else:
            targets.append(args[i]); i += 1
    funcs = {}  # (rel, qn) -> set(props)
    for f in sorted(glob.glob(os.path.join(HERE, "evidence", "C*.json"))):
        ev = json.load(open(f))
        prop = os.path.basename(f)[:-5]
        for o in ev["coverage"].get("all_obligations", []):
            if o["rule"][-1] in "uv":
                continue
            st = o.get("site", "")
            if ".py:" in st and " " in st:
                funcs.setdefault((st.split(":")[0], st.split(" ", 1)[1]), set()).add(prop)
    work = []
    for relpath in sorted(glob.glob("/repo/atomica/*.py")):
        rel = "atomica/" + os.path.basename(relpath)
        src = open(relpath).read()
        tree = ast.parse(src)
        for qn, fn in qualnames(tree):
            if targets and not any(t.split(":")[0] == rel and qn.startswith(t.split(":")[1]) for t in targets):
                continue
            props = sorted(funcs.get((rel, qn), ()))
            if not props:
                continue
            ms = [m for m in twins_of(src, fn) if kinds is None or m[1] in kinds]
            # spread over kinds: keep all non-comment kinds up to maxper, one comment
            nc = [m for m in ms if m[1] != "comment"]
            cm = [m for m in ms if m[1] == "comment"][:1]
            if len(nc) > maxper:
                step = len(nc) / float(maxper)
                nc = [nc[int(k * step)] for k in range(maxper)]
            for m in nc + cm:
                work.append((len(work), rel, qn) + m + (props,))
    print("%d variants" % len(work), flush=True)
    with mp.Pool(jobs) as pool:
        res = []
        for r in pool.imap_unordered(run_one, work):
            res.append(r)
            if len(res) % 50 == 0:
                print("  %d/%d" % (len(res), len(work)), flush=True)
    res.sort(key=lambda r: r["idx"])
    os.makedirs(os.path.dirname(out), exist_ok=True)
    json.dump(res, open(out, "w"), indent=1)
    by = {}
    for r in res:
        by[r["status"]] = by.get(r["status"], 0) + 1
    print(by)
    for r in res:
        if r["status"] in ("alarm", "nocompile"):
            print("%s %s:%d %s [%s] %s -> %s" % (r["status"].upper(), r["file"], r["line"], r["func"], r["kind"], r["descr"], r.get("bad") or r.get("err")))


if __name__ == "__main__":
    main()
